"""C05 — tasks are read as written and survive serialisation unchanged (writer/reader agreement)."""
import re
from ..flow import cond_atoms

from ..facts import walk, strip, strip_casts, lv, show, writes, calls, int_value, table_py, root_var
from ..q import call_sites, const_eval, str_value
from ..absw import AbsWalk
from ..rules import bitint, encodings
from ..snapshot import AnalysisBroken
from .c03 import classes

UNITS = None
EXPLANATION = (
    "R05.1 keyword agreement: every property name, parameter, RRULE/MRULE part, component and method token that the serialisers can emit "
    "(string literals reaching fdprintf/fdwrite in the writer functions, tokenised) is accepted by the reader table of the corresponding "
    "parser state (gperf word lists regenerated from the current .erf files, the parameter literals of snarf_dt), or is on a short frozen "
    "write-only list with its reason. R05.2 field pairing: for each task attribute the keyword whose parser case stores the field equals the "
    "keyword the serialiser emits next to a read of that field. R05.3 nominal typing of the set containers at every call (shared with C19). "
    "R05.4 sentinel encodings of umask / max-simul round-trip over the whole field domain (shared with C12). R05.5: for every stream "
    "class, each sub-stream the class frees and clones is also serialised. R05.2b: a first-one-wins guard in a parser case tests the very "
    "field that case stores. R05.4b: the RRULE writer treats exactly the parser's default COUNT/INTERVAL as `do not write`. R05.7: every copy of a calendar-level value into the event at END:VEVENT is "
    "controlled by a test that exactly that field is unset. R05.6: the "
    "buffered writer fdprintf() never hands a consumed va_list to a second formatting call (records that do not fit the 4096-byte buffer).")
NOT_DECIDED = ("equality of the remaining occurrence sequence after a write/read cycle at every consumption prefix (run-time stream state); "
               "value formats of individual fields beyond the encodings checked; the behaviour itself")
TRUSTED = ["clang 14 parser/CFG builder", "echse-facts extractor", "gperf (tables regenerated from the .erf files)", "python rule engines in /verif/sa"]
LEVEL_TEXT = ("Static verdict on necessary structural clauses of C05: the writer's and the reader's tables agree (keywords, field pairing, "
              "container typing, sentinel encodings over the whole field domain, sub-stream traversal of every stream class). It decides table "
              "agreement, not equality of occurrence sequences after a round trip. Also: COUNT/INTERVAL values the serialiser writes (incl. COUNT=0 of an exhausted rule) are read back as written or as `no occurrences`; calendar-level fields are overridable at event level; the off-by-one fields are unsigned.")
LEVEL_NOTE = "Trusted: clang 14 front end/CFG, extractor, gperf, rule engines."
TECHNIQUE = "static analysis: writer/reader table agreement over extracted string literals and gperf word lists, per-keyword path-sensitive field pairing, typedef nominal typing, whole-domain encoding evaluation, sibling agreement of class methods; value-fixed walks of the scalar RRULE reader"

WRITERS = {
    "evical.c": ("send_task", "send_ev", "send_rrul", "send_scale", "send_cd", "send_ical_hdr", "send_ical_ftr", "send_evrrul",
                 "send_evical_vevent", "echs_icalify_init", "echs_icalify_fini", "echs_task_icalify", "echs_unsc_icalify"),
    "evmrul.c": ("mrulsp_icalify", "send_evmrul"),
    "echsd.c": ("vtodoify", "cmd_ical_rpl"),
}
WRITE_ONLY = {
    "VERSION": "iCalendar boilerplate; the parser needs no version",
    "PRODID": "iCalendar boilerplate",
    "DTSTAMP": "creation stamp, not part of a task",
    "STATUS": "cancellation marker of the reply/cancel form; the cancel verb is carried by METHOD:CANCEL",
    "VALUE": "DTSTART;VALUE=DATE: the reader recognises a date by its form, the parameter is redundant",
}


def _wordlist(prog, scope, slot):
    for t in prog.tables.get("wordlist", []):
        if t["scope"] == scope:
            return {w[slot]: w for w in (table_py(t) or []) if isinstance(w, dict) and w.get(slot)}
    raise AnalysisBroken("gperf word list %s not found" % scope)


def _literals(prog, f):
    """String literals a writer function can emit: [(text, line)]."""
    out = []
    cfg = f.cfg
    for b, i, c, line in f.all_calls():
        if c.get("fn") in ("fdprintf", "fdwrite"):
            s = str_value(prog, f, c["a"][0])
            if s is not None:
                out.append((s, c.get("line", line)))
            else:
                # a local char buffer initialised with a keyword literal, or a pointer chosen between static literals
                a = strip_casts(cfg.resolve(c["a"][0]))
                if a.get("k") == "ref":
                    for bb, ii, x, ln in cfg.all_elems():
                        for l, kind, n in writes(cfg.resolve(x)):
                            if lv(l) == a["n"]:
                                rhs = n.get("init") if kind == "decl" else (n.get("r") if n.get("k") == "bin" else None)
                                sv = str_value(prog, f, rhs) if rhs is not None else None
                                if sv:
                                    out.append((sv, n.get("line", ln)))
    # static tables of literals (e.g. the FREQ= names); bare value tokens (weekday names) are checked by their own rule
    for tn, ts in prog.tables.items():
        for t in ts:
            if t["scope"] == "function:" + f.name:
                v = table_py(t)
                if isinstance(v, list) and v and all(isinstance(x, str) for x in v if x is not None):
                    for x in v:
                        if x and ("=" in x or ":" in x):
                            out.append((x, t["line"]))
    return out


def r05_1(prog, rep):
    rid = "R05.1"
    fields = _wordlist(prog, "function:__evical_fld", "fldstr")
    rkeys = _wordlist(prog, "function:__evrrul_key", "keystr")
    mkeys = _wordlist(prog, "function:__evmrul_key", "keystr")
    comps = _wordlist(prog, "function:__evical_comp", "compstr")
    meths = _wordlist(prog, "function:__evical_meth", "methstr")
    # parameter literals the date reader knows
    params = set()
    for fn in ("snarf_dt", "snarf_dtlst"):
        for t in [t for ts in prog.tables.values() for t in ts if t["scope"] == "function:" + fn]:
            v = table_py(t)
            if isinstance(v, str) and v.endswith("="):
                params.add(v[:-1])
    if not {"TZID", "SCALE"} <= params:
        raise AnalysisBroken("reader parameter literals not found: %s" % params)
    seen = {}
    nfn = 0
    for file, names in WRITERS.items():
        for name in names:
            if not prog.has_fn(name, file):
                continue
            f = prog.fn(name, file)
            nfn += 1
            for text, line in _literals(prog, f):
                toks = []
                for ln_ in text.split("\n"):
                    m = re.match(r"^([A-Z][A-Z0-9-]+)(?=[:;]|$)", ln_)
                    if m and (":" in ln_ or ";" in ln_ or ln_ == m.group(1)):
                        toks.append(("prop", m.group(1)))
                        mv = re.match(r"^(BEGIN|END):([A-Z]+)$", ln_)
                        if mv:
                            toks.append(("comp", mv.group(2)))
                        mm = re.match(r"^METHOD:([A-Z]+)$", ln_)
                        if mm:
                            toks.append(("meth", mm.group(1)))
                    for pm in re.finditer(r";([A-Z][A-Z0-9-]+)=", ln_):
                        kind = "rkey" if name == "send_rrul" else ("mkey" if name in ("mrulsp_icalify", "send_evmrul") else "param")
                        toks.append((kind, pm.group(1)))
                    m2 = re.match(r"^(FREQ)=", ln_)
                    if m2:
                        toks.append(("rkey", "FREQ"))
                for kind, tok in toks:
                    key = "%s/%s" % (name, tok)
                    if key in seen:
                        continue
                    seen[key] = True
                    table = {"prop": fields, "rkey": rkeys, "mkey": mkeys, "comp": comps, "meth": meths, "param": params}[kind]
                    what = {"prop": "property", "rkey": "RRULE part", "mkey": "MRULE part", "comp": "component", "meth": "method", "param": "parameter"}[kind]
                    if tok in table:
                        rep.ok(rid, key, f.loc(line), "%s %s is written and is a reader keyword" % (what, tok))
                    elif tok in WRITE_ONLY and kind in ("prop", "param"):
                        rep.note(rid, key, f.loc(line), "write-only by design: " + WRITE_ONLY[tok])
                    elif name in ("vtodoify", "cmd_ical_rpl") and kind == "prop" and tok in fields:
                        rep.ok(rid, key, f.loc(line), "%s %s is a reader keyword" % (what, tok))
                    else:
                        rep.fail(rid, key, f.loc(line),
                                 "%s writes the %s `%s`, which no reader table accepts in that position: the value is silently dropped when the text is read back" % (
                                     name, what, tok))
    _weekday_tokens(prog, rep, rid)
    _freq_tokens(prog, rep, rid)
    if nfn < 12 or len(seen) < 50:
        rep.broken_("rule=R05.1 expected >=12 writer functions and >=50 tokens, found %d/%d" % (nfn, len(seen)))


def _weekday_tokens(prog, rep, rid):
    """The weekday names send_cd writes are read back by snarf_wday to the same weekday."""
    w = None
    for t in prog.tables.get("w", []):
        if t["scope"] == "function:send_cd":
            w = table_py(t)
    sw = prog.fn("snarf_wday", "evical.c")
    if not w:
        rep.fail(rid, "send_cd/weekday-table", sw.loc(), "weekday name table of send_cd not found")
        return
    s_ = sw.params[0]["n"]
    for idx, tok in enumerate(w):
        if idx == 0 or not tok:
            continue
        got = set()

        def on_exit(store):
            pass
        rets = []

        def effect(b, i, x, store, _r=rets):
            if isinstance(x, dict) and x.get("k") == "ret":
                v = const_eval(sw, sw.cfg.resolve(x["e"]))
                if v is None:       # `return s[1] == 'H' ? THU : TUE` — the value under this walk's characters
                    from ..absw import eval_in as _ev
                    v = _ev(store, sw.cfg.resolve(x["e"]), sw)
                _r.append(v)
            return None
        init = {"*" + s_: ord(tok[0]), "%s[1]" % s_: ord(tok[1]) if len(tok) > 1 else 0}
        AbsWalk(sw, set(init) | {l_["n"] for l_ in sw.locals}, init=init, effect=effect).run()
        key = "send_cd/weekday %s" % tok
        if set(rets) == {idx}:
            rep.ok(rid, key, sw.loc(), "written for weekday %d, read back as %d" % (idx, idx))
        else:
            rep.fail(rid, key, sw.loc(), "weekday name %s (written for weekday %d) is read back as %s by snarf_wday" % (tok, idx, sorted(set(rets))))


def _freq_tokens(prog, rep, rid):
    """FREQ names written by send_rrul are read back by snarf_freq to the same frequency."""
    ft = None
    for t in prog.tables.get("f", []):
        if t["scope"] == "function:send_rrul":
            ft = table_py(t)
    sf = prog.fn("snarf_freq", "evical.c")
    if not ft:
        rep.fail(rid, "send_rrul/freq-table", sf.loc(), "FREQ name table of send_rrul not found")
        return
    s_ = sf.params[0]["n"]
    for idx, tok in enumerate(ft):
        if not tok or idx == 0:
            continue
        name = tok.split("=", 1)[1]
        rets = []

        def effect(b, i, x, store, _r=rets):
            if isinstance(x, dict) and x.get("k") == "ret":
                _r.append(const_eval(sf, sf.cfg.resolve(x["e"])))
            return None
        init = {"*" + s_: ord(name[0])}
        for k_ in range(1, min(len(name), 6)):
            init["%s[%d]" % (s_, k_)] = ord(name[k_])
        def call_eval(c, store, _name=name):
            if c.get("fn") == "strncmp":
                lit = str_value(prog, sf, c["a"][1])
                nn = const_eval(sf, c["a"][2])
                if lit is not None and nn is not None and lv(sf.cfg.resolve(c["a"][0])) == s_:
                    return 0 if _name[:nn] == lit[:nn] else 1
            return None
        AbsWalk(sf, set(init), init=init, effect=effect, call_eval=call_eval).run()
        key = "send_rrul/%s" % tok
        if set(rets) == {idx}:
            rep.ok(rid, key, sf.loc(), "written for frequency %d, read back as %d" % (idx, idx))
        else:
            rep.fail(rid, key, sf.loc(), "%s (written for frequency %d) is read back as %s by snarf_freq" % (tok, idx, sorted(set(rets), key=str)))


def _reader_fields(prog):
    """keyword -> set of task fields the parser case stores (snarf_fld)."""
    fields = _wordlist(prog, "function:__evical_fld", "fldstr")
    f = prog.fn("snarf_fld", "evical.c")
    cfg = f.cfg
    fld = f.params[1]["n"]
    sw = None
    for b, blk in sorted(cfg.blocks.items(), reverse=True):
        if blk.term and blk.term["kind"] == "switch" and lv(cfg.resolve(blk.term.get("on"))) == fld:
            if sw is None or len(blk.succs) > len(cfg.blocks[sw].succs):
                sw = b
    if sw is None:
        raise AnalysisBroken("snarf_fld: switch over the field not found")
    out = {}
    for kw, w in fields.items():
        got = set()

        def effect(b, i, x, store, _got=got):
            for l, kind, n in writes(x):
                t = lv(l)
                if t.startswith("ve->t."):
                    _got.add(t[len("ve->t."):].split("[")[0])
            for c in calls(x):
                for a in c["a"]:
                    t = lv(strip_casts(cfg.resolve(a)))
                    if t.startswith("&ve->t."):
                        _got.add(t[len("&ve->t."):])
            return None
        AbsWalk(f, {fld}, init={fld: w["fld"]}, effect=effect).run(start_block=sw)
        out[kw] = got
    return out


def r05_2(prog, rep):
    rid = "R05.2"
    rf = _reader_fields(prog)
    st = prog.fn("send_task", "evical.c")
    cfg = st.cfg
    tpar = st.params[1]["n"]
    n = 0
    seen = set()
    for b, i, c, line in st.all_calls():
        if c.get("fn") not in ("fdprintf",):
            continue
        fmt = str_value(prog, st, c["a"][0]) or ""
        m = re.match(r"^([A-Z][A-Z0-9-]+):", fmt)
        if not m:
            continue
        kw = m.group(1)
        # fields of the task read by the arguments (through one level of locals)
        flds = set()

        def collect(x, depth=0):
            for nn in walk(cfg.resolve(x)):
                if nn.get("k") == "mem":
                    t = lv(nn)
                    if t.startswith(tpar + "->"):
                        flds.add(t[len(tpar) + 2:])
                elif nn.get("k") == "ref" and nn.get("dk") == "local" and depth < 2:
                    for bb, ii, xx, ln in cfg.all_elems():
                        for l, kind, d in writes(xx):
                            if lv(l) == nn["n"]:
                                rhs = d.get("init") if kind == "decl" else (d.get("r") if d.get("k") == "bin" else None)
                                if rhs is not None:
                                    collect(rhs, depth + 1)
        for a in c["a"][1:]:
            collect(a)
        flds = {re.sub(r"\..*$", "", x) if x.startswith("run_as.") and False else x for x in flds}
        if not flds or kw == "UID":
            continue
        key = "send_task/%s" % kw
        if key in seen:
            continue
        seen.add(key)
        n += 1
        want = rf.get(kw)
        if want is None:
            rep.fail(rid, key, st.loc(line), "%s is written from t->%s but is not a reader keyword" % (kw, sorted(flds)))
            continue
        norm = lambda s_: s_.replace("run_as.", "run_as.")
        if {norm(x) for x in flds} & {norm(x) for x in want}:
            rep.ok(rid, key, st.loc(line), "%s: written from t->%s, read into t.%s" % (kw, sorted(flds), sorted(want)))
        else:
            rep.fail(rid, key, st.loc(line), "%s is written from t->%s but the parser stores %s into t.%s: the attribute comes back in another field" % (
                kw, sorted(flds), kw, sorted(want)))
    if n < 10:
        rep.broken_("rule=R05.2 expected >=10 paired task fields, found %d" % n)
    # every task field the parser can store from an event property is written by send_task (or listed)
    written = set()
    for b, i, x, line in cfg.all_elems():
        for nn in walk(x):
            if nn.get("k") == "mem" and lv(nn).startswith(tpar + "->"):
                written.add(lv(nn)[len(tpar) + 2:].split(".")[0])
    NOT_WRITTEN = {"oid": "written as UID via obint_name", "owner": "carried by the calendar-level X-ECHS-OWNER of echs_icalify_init",
                   "moutset": "presence flag of mailout", "merrset": "presence flag of mailerr", "mrunset": "presence flag of mailrun",
                   "vtod_typ": "derived", "src": "origin file, not serialised", "env": "not part of the text form", "strm": "serialised by the stream classes"}
    allf = set()
    for kw, s_ in rf.items():
        allf |= {x.split(".")[0] for x in s_}
    for fld in sorted(allf):
        key = "send_task/field %s" % fld
        if fld in written:
            rep.ok(rid, key, st.loc(), "t->%s is read by the serialiser" % fld, nontrivial=False)
        elif fld in NOT_WRITTEN:
            rep.note(rid, key, st.loc(), "listed: " + NOT_WRITTEN[fld])
        else:
            rep.fail(rid, key, st.loc(), "the parser stores t.%s but send_task never reads it: the attribute is lost when the task is written" % fld)


def r05_4b(prog, rep):
    """RRULE scalar parts: the writer's emission test treats exactly the parser's default (unset) value as `do not write`."""
    rid = "R05.4"
    sr = prog.fn("snarf_rrule", "evical.c")
    # parser defaults from the initialiser of the result
    defaults = {}
    for b, i, x, line in sr.cfg.all_elems():
        if isinstance(x, dict) and x.get("k") == "decl":
            for d in x["ds"]:
                ini = strip_casts(sr.cfg.resolve(d["init"])) if d.get("init") is not None else None
                if ini is not None and ini.get("k") == "init" and "rrulsp_s" in (d.get("t") or ""):
                    for name, val in ini["fs"]:
                        v = const_eval(sr, val) if val is not None else 0
                        defaults[name] = v
    if "count" not in defaults or "inter" not in defaults:
        raise AnalysisBroken("snarf_rrule: default initialiser of the rule not found (%s)" % defaults)
    w = prog.fn("send_rrul", "evical.c")
    cfg = w.cfg
    rr = w.params[1]["n"]
    for part, fld, probe in (("COUNT", "count", (-1, 0, 1, 2, 64, 1000)), ("INTERVAL", "inter", (1, 2, 3, 7, 60))):
        site = None
        for S in call_sites(w, "fdprintf"):
            fmt = str_value(prog, w, S.node["a"][0]) or ""
            if fmt.startswith(";%s=" % part):
                site = S
        key = "send_rrul/%s-sentinel" % part
        if site is None:
            rep.fail(rid, key, w.loc(), "send_rrul never writes ;%s=" % part)
            continue
        wrong = []
        for v in probe:
            hit = []

            def effect(b, i, x, store, _hit=hit):
                if (b, i) == (site.b, site.i):
                    _hit.append(1)
                return None
            t = "%s->%s" % (rr, fld)
            should = (v != defaults[fld])
            # the other integer parameters of the writer (the cached-occurrence count) must not influence the decision
            others = [p_["n"] for p_ in w.params if p_["t"] in ("size_t", "unsigned int", "int") and p_["n"] != rr]
            for ov in (0, 3):
                del hit[:]
                init = {t: v}
                init.update({o: ov for o in others})
                AbsWalk(w, set(init), init=init, effect=effect).run()
                emitted = bool(hit)
                if emitted != should:
                    wrong.append((v, emitted))
                    break
        if wrong:
            v, emitted = wrong[0]
            rep.fail(rid, key, w.loc(site.line),
                     "%s=%d is %s although the parser's unset value is %d: %s" % (
                         part, v, "written" if emitted else "NOT written", defaults[fld],
                         "an exhausted rule (remaining count 0) comes back without COUNT, i.e. unbounded" if part == "COUNT" and v == 0 else
                         "the value does not survive a write/read cycle"), {"wrong": wrong})
        else:
            rep.ok(rid, key, w.loc(site.line), ";%s= is written for every value except the parser default %d (probed %s)" % (part, defaults[fld], list(probe)))


def r05_2b(prog, rep):
    """Within one parser case, a `first one wins` guard tests the very field the case stores."""
    rid = "R05.2"
    fields = _wordlist(prog, "function:__evical_fld", "fldstr")
    f = prog.fn("snarf_fld", "evical.c")
    cfg = f.cfg
    fld = f.params[1]["n"]
    sw = None
    for b, blk in sorted(cfg.blocks.items(), reverse=True):
        if blk.term and blk.term["kind"] == "switch" and lv(cfg.resolve(blk.term.get("on"))) == fld:
            if sw is None or len(blk.succs) > len(cfg.blocks[sw].succs):
                sw = b
    n = 0
    for kw, w in sorted(fields.items()):
        stored, guards = set(), set()

        def effect(b, i, x, store, _s=stored):
            for l, kind, nn in writes(x):
                t = lv(l)
                if t.startswith("ve->t."):
                    _s.add(t[len("ve->t."):])
            return None
        wk = AbsWalk(f, {fld}, init={fld: w["fld"]}, effect=effect)
        wk.run(start_block=sw)
        visited = {k[0] for k in wk.visited}
        for b in visited:
            c = cfg.cond(b)
            if c is None or b == sw:
                continue
            for nn in walk(c):
                if nn.get("k") == "mem" and lv(nn).startswith("ve->t.") and not any(True for _ in calls(c)):
                    guards.add(lv(nn)[len("ve->t."):])
        guards = {g for g in guards if not any(o != g and o.startswith(g + ".") for o in guards)}
        if not guards or not stored:
            continue
        n += 1
        key = "snarf_fld/%s/guard-field" % kw
        if guards <= stored:
            rep.ok(rid, key, f.loc(), "%s: guard on t.%s, stores t.%s" % (kw, sorted(guards), sorted(stored)))
        else:
            rep.fail(rid, key, f.loc(), "case %s stores t.%s but its guard tests t.%s: whether the value is kept depends on another attribute" % (
                kw, sorted(stored), sorted(guards - stored)))
    if n < 3:
        rep.broken_("rule=R05.2 expected >=3 guarded parser cases, found %d" % n)


def r05_5(prog, rep):
    rid = "R05.5"
    cls = classes(prog)
    for cname, slots in sorted(cls.items()):
        if cname.startswith("evmrul"):
            rep.note(rid, "%s/seria" % cname, "src/evmrul.c", "MRULE movers are outside the properties' language")
            continue

        def substreams(fname, fns):
            if not fname:
                return set()
            f = prog.fn(fname)
            out = set()
            for b, i, c, line in f.all_calls():
                if c.get("fn") in fns:
                    for a in c["a"]:
                        t = lv(strip_casts(f.cfg.resolve(a)))
                        m = re.match(r"^([A-Za-z_]\w*)->([a-z]+)(\[.*\])?$", t)
                        if m and m.group(1) in {l_["n"] for l_ in f.locals} | {p_["n"] for p_ in f.params}:
                            out.add(m.group(2))
            return out
        # a class that keeps its pending occurrences in an array writes all of them, not just the next one
        sf = prog.fn(slots["seria"]) if slots.get("seria") else None
        if sf is not None and sf.cfg:
            loops_ = sf.cfg.natural_loops()
            arr = {}
            for b, i, x, line in sf.cfg.all_elems():
                if not isinstance(x, dict):
                    continue
                for q in walk(sf.cfg.resolve(x)):
                    if q.get("k") == "idx":
                        bb = strip_casts(q["b"])
                        if bb.get("k") == "mem" and bb.get("arrow") and re.search(r"echs_(event|instant)_t\s*\[", bb.get("t") or ""):
                            arr.setdefault(bb["f"], []).append(any(b in blks for blks in loops_.values()))
            for fld_, inl in sorted(arr.items()):
                key = "%s/seria/pending-array(%s)" % (cname, fld_)
                if any(inl):
                    rep.ok(rid, key, sf.loc(), "the array `%s` is walked when the stream is written" % fld_)
                else:
                    rep.fail(rid, key, sf.loc(), "%s keeps its pending occurrences in the array `%s`, %s writes one element of it and no loop: of a list of RDATEs "
                             "only the next one survives a checkpoint, an `echsq` submission or `echse merge`" % (cname, fld_, slots["seria"]))
        freed = substreams(slots.get("free"), ("free_echs_evstrm",))
        cloned = substreams(slots.get("clone"), ("clone_echs_evstrm",))
        seria = substreams(slots.get("seria"), ("echs_evstrm_seria",))
        subs = freed | cloned
        f = prog.fn(slots["seria"])
        if not subs:
            rep.ok(rid, "%s/seria" % cname, f.loc(), "leaf class: no sub-streams", nontrivial=False)
            continue
        for s_ in sorted(subs):
            key = "%s/seria/%s" % (cname, s_)
            if s_ in seria:
                rep.ok(rid, key, f.loc(), "sub-stream %s is freed/cloned and serialised" % s_)
            else:
                rep.fail(rid, key, f.loc(),
                         "%s frees/clones its sub-stream `%s` but %s never serialises it: whatever that stream contributes (the EXDATE/EXRULE "
                         "exceptions of a filter) is lost whenever the task is written (echsq submit, checkpoint, echse merge)" % (cname, s_, slots["seria"]))


def r05_7(prog, rep):
    """Calendar-level values are defaults *only for what the event leaves unset*: in the parser's END handler every copy
    `event.F = calendar.F` is controlled by a test that exactly F of the event is unset.  A copy of an aggregate guarded by one of its
    members overwrites the other members the event did set."""
    rid = "R05.7"
    f = prog.fn("_ical_proc", "evical.c")
    cfg = f.cfg
    n = 0
    for b, i, x, line in cfg.all_elems():
        for l, kind, nn in writes(x):
            if kind != "assign" or nn.get("k") != "bin" or nn["op"] != "=":
                continue
            lt, rt = lv(l), lv(strip_casts(cfg.resolve(nn["r"])))
            m1, m2 = re.match(r"^(\w+)->ve\.t\.(.+)$", lt or ""), re.match(r"^(\w+)->globve\.t\.(.+)$", rt or "")
            if not (m1 and m2 and m1.group(2) == m2.group(2)):
                continue
            n += 1
            key = "_ical_proc/default(%s)" % m1.group(2)
            # the controlling test: the unique predecessor branch of this block
            guards = set()
            for p_ in cfg.lpreds.get(b, []):
                c = cfg.cond(p_)
                if c is None:
                    continue
                si = cfg.blocks[p_].succs.index(b)
                for a in cond_atoms(c, si == 0):
                    if len(a) == 3 and a[0] == "false":
                        guards.add(a[1])
                    if len(a) == 5 and a[0] == "==" and a[2] == "0":
                        guards.add(a[1])
            if lt in guards:
                rep.ok(rid, key, f.loc(nn.get("line", line)), "copied from the calendar only when %s is unset" % lt)
            elif guards:
                rep.fail(rid, key, f.loc(nn.get("line", line)),
                         "the calendar-level %s is copied over the event's when %s is unset: whatever else the event set inside %s "
                         "(working directory, shell, group) is overwritten by the calendar's value" % (m1.group(2), sorted(guards)[0], lt))
            else:
                rep.fail(rid, key, f.loc(nn.get("line", line)), "the calendar-level %s overwrites the event's unconditionally" % m1.group(2))
    if n < 4:
        rep.broken_("rule=R05.7 expected >=4 default copies at END:VEVENT, found %d" % n)
    # a field the prologue may set reaches the event through the copy `ve.t = globve.t` at BEGIN:VEVENT; the event's own line for that
    # field is then parsed by snarf_fld() *onto* the calendar's value — it must replace it, so the event-level case of a field that
    # snarf_pro() delegates must not be "the first one wins"
    pro, fldf = prog.fn("snarf_pro", "evical.c"), prog.fn("snarf_fld", "evical.c")
    fpar_p = [p_["n"] for p_ in pro.params if "fld" in (p_.get("t") or "")]
    fpar_f = [p_["n"] for p_ in fldf.params if "fld" in (p_.get("t") or "")]
    en = prog.enum(having="FLD_SHELL")
    if not fpar_p or not fpar_f or not en:
        raise AnalysisBroken("R05.7: field discriminant of snarf_pro/snarf_fld not found")
    nd = 0
    for name, val in en["enumerators"]:
        got = []

        vep_p = pro.params[0]["n"]

        def eff(b, i, x, store, _g=got):
            for c in calls(x):
                if c.get("fn") == fldf.name:
                    _g.append(1)
            for l, kind, nn in writes(x):
                t = lv(l)
                if t.startswith(vep_p + "->t.") or t.startswith(vep_p + "[0].t."):
                    _g.append(1)        # the prologue stores the field itself
            return None
        AbsWalk(pro, {fpar_p[0]}, init={fpar_p[0]: val}, effect=eff).run()
        if not got:
            continue
        nd += 1
        vep = fldf.params[0]["n"]

        def stores_for(init):
            st = set()

            def eff2(b, i, x, store, _s=st):
                for l, kind, nn in writes(x):
                    t = lv(l)
                    if t.startswith(vep + "->t.") or t.startswith(vep + "[0].t.") or t.startswith("(*%s).t." % vep):
                        _s.add(t)
                return None
            ini = {fpar_f[0]: val}
            ini.update(init)
            AbsWalk(fldf, set(ini), init=ini, effect=eff2, max_states=100000).run()
            return st
        free = stores_for({})
        key = "snarf_fld/%s-overrides-calendar-default" % name
        firstwins = sorted(t for t in free if t not in stores_for({t: 1000}))
        if firstwins:
            rep.fail(rid, key, fldf.loc(), "snarf_pro() accepts %s at calendar level, and BEGIN:VEVENT copies the calendar's task into the event; the event's own "
                     "%s is then dropped because %s is already set (`first one wins`): a calendar-wide default shadows the event's value" % (
                         name, name, ", ".join(firstwins)))
        else:
            rep.ok(rid, key, fldf.loc(), "the event-level %s replaces a calendar-level default (%s)" % (name, ", ".join(sorted(free)) or "no store"), nontrivial=False)
    if nd < 4:
        rep.broken_("rule=R05.7 expected >=4 fields that snarf_pro accepts at calendar level, found %d" % nd)


def r05_8(prog, rep):
    """The rule streams of one event lie in an array (`this[i]`); each has its own occurrence cache `cch[]`, read position `rdi` and fill
    level `ncch`.  Wherever a read of the cache is controlled by a comparison of a read position with a fill level, all four — the
    compared position, the compared level, the cache and the index — must belong to the same stream (after looking through cursors
    such as `that = this + i`)."""
    rid = "R05.8"
    n = 0
    for f in prog.fns_in("evical.c"):
        if not f.cfg:
            continue
        cfg = f.cfg

        def base(x):
            t = lv(strip_casts(f.expand(cfg.resolve(x))))
            for suf in ("->rdi", ".rdi", "->ncch", ".ncch", "->cch", ".cch"):
                if t.endswith(suf):
                    return t[:-len(suf)]
            return None
        guards = []
        for b in cfg.blocks:
            c = cfg.cond(b)
            if c is None:
                continue
            for nn in walk(c):
                if nn.get("k") == "bin" and nn["op"] in ("<", "<=", ">", ">="):
                    ls, rs = lv(strip_casts(f.expand(nn["l"]))), lv(strip_casts(f.expand(nn["r"])))
                    if (ls.endswith("rdi") and rs.endswith("ncch")) or (ls.endswith("ncch") and rs.endswith("rdi")):
                        guards.append((b, base(nn["l"]), base(nn["r"]), nn.get("line")))
        if not guards:
            continue
        for b, i, x, line in cfg.all_elems():
            if not isinstance(x, dict):
                continue
            for nn in walk(cfg.resolve(x)):
                if nn.get("k") == "idx" and lv(strip_casts(f.expand(nn["b"]))).endswith("cch"):
                    ix = strip_casts(f.expand(nn["i"]))
                    ixs = [lv(q) for q in walk(ix) if q.get("k") == "mem" and q.get("f") == "rdi"]
                    if not ixs:
                        continue
                    cb = base(nn["b"])
                    ib = ixs[0][:-len("->rdi")] if ixs[0].endswith("->rdi") else ixs[0][:-len(".rdi")]
                    ctl = [g for g in guards if g[0] != b and cfg.dominates(g[0], b)]
                    if not ctl:
                        continue
                    n += 1
                    gb, g1, g2, gl = sorted(ctl, key=lambda g: -g[0])[-1] if False else ctl[-1]
                    key = "%s/cache-read(%s)" % (f.name, lv(strip_casts(f.expand(nn)))[:40])
                    if len({cb, ib, g1, g2}) == 1:
                        rep.ok(rid, key, f.loc(nn.get("line", line)), "fill-level test, cache and read position all belong to %s" % cb)
                    else:
                        rep.fail(rid, key, f.loc(nn.get("line", line)), "the cache of %s is read at the position of %s under a test that compares %s's position with %s's "
                                 "fill level: for the other rule streams of the event the test says nothing, an exhausted sibling contributes a stale "
                                 "or unfilled cache slot (the written DTSTART jumps ahead or is dropped)" % (cb, ib, g1, g2))
    if n < 2:
        rep.broken_("rule=R05.8 expected >=2 guarded reads of a rule stream's cache, found %d" % n)



def r05_10(prog, rep, rid="R05.10"):
    """free_echs_task() frees the strings a task owns.  A member that the calendar-level prologue can set (snarf_pro(), directly or
    through snarf_fld()) reaches every event of the file through the struct copy at BEGIN:VEVENT; if it is one of the owned strings
    the event must get a copy of its own there, or every task made from the file frees the same pointer."""
    fr = prog.fn("free_echs_task", "task.c")
    owned = set()
    for b, i, x, line in fr.cfg.all_elems():
        if not isinstance(x, dict):
            continue
        for c in calls(x):
            if c.get("fn") == "free" and c.get("a"):
                a = strip_casts(fr.cfg.resolve(c["a"][0]))
                while a.get("k") == "call" and a.get("a"):          # deconst(x), nummapstr_str(x)
                    a = strip_casts(fr.cfg.resolve(a["a"][0]))
                t = lv(fr.expand(a))
                if a.get("k") == "ref" and a.get("dk") == "local":
                    # tmps = nummapstr_str(t->owner): the freed local stands for that member
                    for b2, i2, x2, l2 in fr.cfg.all_elems():
                        if isinstance(x2, dict):
                            for l, kind, nn in writes(x2):
                                if lv(l) == a["n"] and nn.get("k") == "bin" and nn["op"] == "=":
                                    paths = {lv(q) for q in walk(fr.cfg.resolve(nn["r"])) if q.get("k") == "mem" and "->" in lv(q)}
                                    for pth in paths:
                                        if not any(o != pth and o.startswith(pth + ".") for o in paths):
                                            owned.add(pth.split("->", 1)[1])
                elif "->" in t:
                    owned.add(t.split("->", 1)[1])
    owned = {m for m in owned if m}
    if len(owned) < 6:
        raise AnalysisBroken("free_echs_task: owned string members not found (%s)" % sorted(owned))
    pro, fldf = prog.fn("snarf_pro", "evical.c"), prog.fn("snarf_fld", "evical.c")
    fpar_p = [p_["n"] for p_ in pro.params if "fld" in (p_.get("t") or "")]
    fpar_f = [p_["n"] for p_ in fldf.params if "fld" in (p_.get("t") or "")]
    en = prog.enum(having="FLD_SHELL")
    if not fpar_p or not fpar_f or not en:
        raise AnalysisBroken("R05.10: field discriminant of snarf_pro/snarf_fld not found")
    cal = set()
    for name, val in en["enumerators"]:
        direct, deleg = set(), []
        vep_p = pro.params[0]["n"]

        def eff(b, i, x, store, _d=direct, _g=deleg):
            for c in calls(x):
                if c.get("fn") == fldf.name:
                    _g.append(1)
            for l, kind, nn in writes(x):
                t = lv(l)
                for pre in (vep_p + "->t.", vep_p + "[0].t."):
                    if t.startswith(pre):
                        _d.add(t[len(pre):])
            return None
        AbsWalk(pro, {fpar_p[0]}, init={fpar_p[0]: val}, effect=eff).run()
        cal |= direct
        if deleg:
            vep = fldf.params[0]["n"]
            st = set()

            def eff2(b, i, x, store, _s=st):
                for l, kind, nn in writes(x):
                    t = lv(l)
                    for pre in (vep + "->t.", vep + "[0].t.", "(*%s).t." % vep):
                        if t.startswith(pre):
                            _s.add(t[len(pre):])
                return None
            AbsWalk(fldf, {fpar_f[0]}, init={fpar_f[0]: val}, effect=eff2, max_states=100000).run()
            cal |= st
    shared = sorted(m for m in owned if m in cal)
    # the struct copies of the task record from the calendar-level bucket into the event's
    par = prog.fn("_ical_proc", "evical.c") if prog.has_fn("_ical_proc", "evical.c") else None
    sites = []
    for f in prog.fns_in("evical.c"):
        if not f.cfg:
            continue
        for b, i, x, line in f.cfg.all_elems():
            if isinstance(x, dict):
                for l, kind, nn in writes(x):
                    if nn.get("k") == "bin" and nn["op"] == "=" and "echs_task_s" in (strip_casts(l).get("t") or "") and "globve" in lv(strip_casts(f.cfg.resolve(nn["r"]))):
                        sites.append((f, b, i, line, lv(l)))
    if not sites:
        raise AnalysisBroken("R05.10: the copy of the calendar-level task record into an event was not found")
    n = 0
    from ..q import Site, site_before
    for f, b, i, line, dst in sites:
        cfg = f.cfg
        for m in shared:
            n += 1
            key = "%s/%s-copied-not-shared" % (f.name, m)
            ok = False
            for b2, i2, x2, l2 in cfg.all_elems():
                if isinstance(x2, dict):
                    for l, kind, nn in writes(x2):
                        if lv(l) == dst + "." + m and nn.get("k") == "bin" and nn["op"] == "=" and \
                                any(q.get("k") == "call" and q.get("fn") in ("strdup", "strndup") for q in walk(cfg.resolve(nn["r"]))) and \
                                site_before(cfg, Site(b, i, None, line), Site(b2, i2, None, l2)):
                            ok = True
            if ok:
                rep.ok(rid, key, f.loc(line), "`%s.%s` gets a copy of its own after the struct copy" % (dst, m))
            else:
                rep.fail(rid, key, f.loc(line), "`%s = ...globve.t` hands the calendar-level `%s` — a heap string that free_echs_task() frees — to every event of the "
                         "file by pointer: the second task made from the file frees it again (abort with a double free) and in between reads freed memory "
                         "as its user, group or owner name" % (dst, m))
    if n < 3:
        rep.broken_("rule=%s expected >=3 owned members that can be set at calendar level (owner, run-as user, run-as group), found %d (%s)" % (rid, n, shared))


def run(prog, rep, tier, snap):
    rep.rule("R05.1", "every emitted keyword/parameter/part/component/method is accepted by the reader", 50)
    rep.call(r05_1, prog, rep)
    rep.rule("R05.2", "field pairing between parser cases and send_task", 20)
    rep.call(r05_2, prog, rep)
    rep.call(r05_2b, prog, rep)
    rep.rule("R05.3", "nominal typing of the container family (shared with C19)", 30)
    rep.call(bitint.r05_3, prog, rep)
    rep.rule("R05.4", "sentinel encodings of umask and max-simul round-trip over the whole field domain", 8)
    rep.call(encodings.r05_4, prog, rep)
    rep.call(r05_4b, prog, rep)
    rep.call(encodings.r05_4c, prog, rep)
    rep.rule("R05.8", "fill-level test and cache read concern the same rule stream", 2)
    rep.call(r05_8, prog, rep)
    rep.rule("R05.5", "every freed/cloned sub-stream is serialised", 3)
    rep.call(r05_5, prog, rep)
    rep.rule("R05.7", "calendar-level defaults fill only what the event leaves unset", 4)
    rep.call(r05_7, prog, rep)
    from ..rules import valist
    rep.rule("R05.6", "the buffered writer never formats from a consumed va_list (records larger than the write buffer)", 1)
    valist.r_valist(prog, rep, "R05.6", only=("fdprintf",))
    rep.call(valist.r_stale_room, prog, rep, "R05.6")
    rep.rule("R05.11", "the buffered writer reports success only when the text fitted the room it was formatted into (value-fixed walk around the buffer's end)", 1)
    rep.call(valist.r_fits, prog, rep, "R05.11")
    from ..rules import state
    rep.rule("R05.9", "the serialiser carries no state from one task to the next (memo keys must cover every argument)", 1)
    rep.call(state.no_carried_state, prog, rep, "R05.9", "serialise")
    rep.rule("R05.10", "strings a task owns are copied, not shared, when an event inherits them from the calendar level", 3)
    rep.call(r05_10, prog, rep)
    from . import c10
    rep.rule("R10.7", "the byte behind a backslash reaches the task (shared with C10)", 1)
    rep.call(c10.r10_7, prog, rep, "R10.7", ("kept",))
    from . import c07
    rep.rule("R07.13", "the serialiser converts a rule stream's proto instant before it compares it with cached occurrences (shared with C07)", 1)
    rep.call(c07.r07_13, prog, rep)
    rep.rule("R07.1", "the zone handle of a DTSTART reads back as the zone whose TZID is written (shared with C07)", 2)
    rep.call(c07.r07_1, prog, rep)
READY = True

# texts brought up to date with the rules above (they supersede the first versions at the top of the module)
LEVEL_TEXT = LEVEL_TEXT + (" Also: owned strings inherited from the calendar level are copied, not shared; a stream class with an array of pending "
                           "occurrences writes all of it; nothing derived from the writer's fill level is used across a flush; the serialiser converts a "
                           "rule stream's wall-clock proto before comparing it with cached occurrences; the byte behind a backslash must reach the "
                           "task (it does not: known finding).")

# texts brought up to date with the rules added in the last rounds
LEVEL_TEXT = LEVEL_TEXT + ' The buffered writer reports success only when the text fitted the room it was formatted into (walk around the end of the buffer).'
TECHNIQUE = (TECHNIQUE if isinstance(TECHNIQUE, str) else TECHNIQUE) + '; value-fixed walk of the buffered writer'

