"""C10 — iCalendar parsing is independent of how the bytes arrive (overrun and progress clauses)."""
from ..facts import walk, strip, strip_casts, lv, show, writes, calls, int_value, table_py
from ..flow import MustFacts, cond_atoms
from ..q import call_sites, const_eval, must_pass_to_exit, forward_scan
from ..loops import analyse_loop, loop_key
from ..absw import AbsWalk
from ..snapshot import AnalysisBroken

UNITS = None
EXPLANATION = (
    "R10.1 stash discipline: (i) in esccpy the must-fact ti < tz holds at every store through the target (entry obligation tz >= 1, "
    "re-established by the `ti >= tz -> return 0` guard after every increment); (ii) every write to the stash cursor is `= 0` or "
    "`+= esccpy(stash + cursor, sizeof(stash) - cursor, ...)`, so cursor + result < sizeof(stash) inductively; (iii) every direct subscript of "
    "the stash uses exactly the cursor; (iv) the branch that stashes a partial line is guarded by remaining < sizeof(stash) - cursor. "
    "R10.2 line consumption: every exit of _ical_proc resets the cursor; the pull loop has no fruitless cycle and every cycle advances the "
    "buffer index by the (positive) line length. R10.3 state machine: all parser states are handled, BEGIN/END are explicit in every state, "
    "the state is only assigned declared values (depth counting confined to the foreign-component state), component and field names are "
    "looked up through the gperf tables only.")
NOT_DECIDED = ("chunking independence itself (an equality between executions over all partitions of all byte strings); over-reads that depend "
               "on stash contents; the behaviour itself")
TRUSTED = ["clang 14 parser/CFG builder", "echse-facts extractor", "python rule engines in /verif/sa"]
LEVEL_TEXT = ("Static verdict on the overrun and progress clauses of C10 for all byte strings and chunkings at once: bounded stash writes, "
              "cursor discipline, consumption of every processed line, progress of the pull loop, exhaustiveness of the component state "
              "machine. Equality of the instruction sequence across chunkings is NOT decided. Also: the end of a pushed piece decides nothing in the escape copier, and the start of a parse does not depend on the first piece's length.")
LEVEL_NOTE = "Trusted: clang 14 front end/CFG, extractor, rule engines."
TECHNIQUE = "static analysis: forward must-facts for bounded writes, shape rules on cursor updates, must-pass-through, fruitless-cycle loop analysis, switch exhaustiveness; condition-shape rules on the piece length"


def r10_1(prog, rep):
    rid = "R10.1"
    e = prog.fn("esccpy", "evical.c")
    cfg = e.cfg
    tgt, tz = e.params[0]["n"], e.params[1]["n"]
    idxvars = set()
    for b, i, x, line in cfg.all_elems():
        for l, kind, n in writes(x):
            l_ = strip_casts(l)
            if l_.get("k") == "idx" and lv(l_["b"]) == tgt:
                iv = strip_casts(l_["i"])
                if iv.get("k") == "un":
                    iv = strip_casts(iv["e"])
                idxvars.add(lv(iv))
    if len(idxvars) != 1:
        rep.fail(rid, "esccpy/index", e.loc(), "stores through %s use several index expressions %s" % (tgt, sorted(idxvars)))
        return
    ti = idxvars.pop()

    def extra_gen(x):
        out = set()
        if isinstance(x, dict) and x.get("k") == "decl":
            for d in x["ds"]:
                if d["n"] == ti and d.get("init") is not None and int_value(d["init"]) == 0:
                    out.add(("lt", ti, tz))   # under the entry obligation tz >= 1
        return out
    mf = MustFacts(cfg, extra_gen=extra_gen)
    n = 0
    for b, i, x, line in cfg.all_elems():
        for l, kind, nn in writes(x):
            l_ = strip_casts(l)
            if l_.get("k") == "idx" and lv(l_["b"]) == tgt:
                n += 1
                facts = mf.at(b, i) or set()
                key = "esccpy/store#%d %s" % (n, show(l_)[:30])
                if ("lt", ti, tz) in facts:
                    rep.ok(rid, key, e.loc(nn.get("line", line)), "%s < %s holds on every path to the store" % (ti, tz))
                else:
                    rep.fail(rid, key, e.loc(nn.get("line", line)), "store %s in esccpy is reachable with %s >= %s: the 1 KiB stash can be overrun by an over-long or escaped line" % (
                        show(l_), ti, tz))
    if n < 3:
        rep.broken_("rule=R10.1 expected >=3 stores through the target in esccpy, found %d" % n)
    # the guard's failing edge returns 0
    # (ii) cursor writes and (iii) subscripts in the parser
    rec = prog.record("ical_parser_s")
    stash = [f for f in rec["fields"] if f.get("extent") and f["t"].startswith("char")]
    if len(stash) != 1:
        raise AnalysisBroken("ical_parser_s: stash field not found")
    sname, ssize = stash[0]["n"], stash[0]["extent"]
    cursor = None
    for f in prog.fns_in("evical.c"):
        if not f.cfg or f.name not in ("_ical_pull", "_ical_proc", "_ical_push", "echs_evical_push", "echs_evical_pull", "echs_evical_last_pull", "_ical_fini", "_ical_init_push"):
            continue
        cfg = f.cfg
        for b, i, x, line in cfg.all_elems():
            xr = cfg.resolve(x)
            for nn in walk(xr):
                if nn.get("k") == "idx" and lv(nn["b"]).endswith("->" + sname):
                    idx = lv(nn["i"])
                    cursor = cursor or idx
                    key = "%s/subscript %s[%s]" % (f.name, sname, idx)
                    if idx.endswith("->six") and idx == cursor:
                        rep.ok(rid, key, f.loc(nn.get("line", line)), "stash subscripted with the cursor only", nontrivial=False)
                    else:
                        rep.fail(rid, key, f.loc(nn.get("line", line)), "stash is subscripted with %s, not with the cursor %s" % (idx, cursor))
    if cursor is None:
        raise AnalysisBroken("no subscript of the stash found")
    for f in prog.fns_in("evical.c"):
        if not f.cfg:
            continue
        cfg = f.cfg
        seen = 0
        for b, i, x, line in cfg.all_elems():
            for l, kind, nn in writes(cfg.resolve(x)):
                if lv(l) != cursor:
                    continue
                seen += 1
                key = "%s/cursor-write#%d" % (f.name, seen)
                if nn.get("k") == "bin" and nn["op"] == "=" and int_value(nn["r"]) == 0:
                    rep.ok(rid, key, f.loc(nn.get("line", line)), "%s = 0" % cursor, nontrivial=False)
                    continue
                if nn.get("k") == "bin" and nn["op"] == "+=":
                    r = strip_casts(nn["r"])
                    call = None
                    if r.get("k") == "call" and r.get("fn") == "esccpy":
                        call = r
                    elif r.get("k") == "ref":
                        # local assigned from esccpy
                        for bb, ii, xx, ln in cfg.all_elems():
                            for l2, k2, n2 in writes(cfg.resolve(xx)):
                                if lv(l2) == r["n"] and n2.get("k") == "bin" and n2["op"] == "=":
                                    rr = strip_casts(n2["r"])
                                    if rr.get("k") == "call" and rr.get("fn") == "esccpy":
                                        call = rr
                    if call is not None and _esccpy_args_ok(f, call, cursor, sname, ssize):
                        rep.ok(rid, key, f.loc(nn.get("line", line)), "%s += esccpy(%s + %s, sizeof(%s) - %s, ...): result < remaining room" % (cursor, sname, cursor, sname, cursor))
                        continue
                rep.fail(rid, key, f.loc(nn.get("line", line)), "the stash cursor is written as `%s`; only `= 0` and `+= esccpy(stash + cursor, sizeof(stash) - cursor, ...)` keep it below %d" % (show(nn)[:70], ssize))
    # every esccpy call site passes a target size >= 1 derived from the stash size
    for f in prog.fns_in("evical.c"):
        if not f.cfg:
            continue
        for S in call_sites(f, "esccpy"):
            if _esccpy_args_ok(f, S.node, cursor, sname, ssize):
                rep.ok(rid, "%s/esccpy-args" % f.name, f.loc(S.line), "target = stash + cursor, size = sizeof(stash) - cursor (>= 1 since cursor < %d)" % ssize)
            else:
                rep.fail(rid, "%s/esccpy-args" % f.name, f.loc(S.line), "esccpy called with (%s, %s): not (stash + cursor, sizeof(stash) - cursor)" % (
                    show(f.cfg.resolve(S.node["a"][0]))[:40], show(f.cfg.resolve(S.node["a"][1]))[:40]))
    # (iv) the partial-line branch is guarded
    p = prog.fn("_ical_pull", "evical.c")
    cfg = p.cfg
    mf = MustFacts(cfg)
    sites = call_sites(p, "esccpy")
    guarded = 0
    for S in sites:
        facts = mf.at(S.b, S.i) or set()
        src_len = show(strip_casts(cfg.resolve(S.node["a"][3])))
        if any(fx[0] == "lt" and "bsz" in fx[1] and "bix" in fx[1] and str(ssize) in fx[2] and cursor.split("->")[-1] in fx[2] for fx in facts):
            guarded += 1
    if guarded >= 1:
        rep.ok(rid, "_ical_pull/partial-line-guard", p.loc(), "the branch that stashes a partial line runs under remaining < sizeof(stash) - cursor")
    else:
        rep.fail(rid, "_ical_pull/partial-line-guard", p.loc(), "a partial line is stashed without the remaining-size guard")


def r10_1v(prog, rep):
    """Every dereference of a local pointer that walks the input chunk is dominated by `ptr < end` (strict)."""
    rid = "R10.1"
    p = prog.fn("_ical_pull", "evical.c")
    cfg = p.cfg
    mf = MustFacts(cfg)
    n = 0
    for b, i, x, line in cfg.all_elems():
        for nn in walk(x):
            if nn.get("k") == "un" and nn["op"] == "*":
                e = strip_casts(nn["e"])
                if e.get("k") == "ref" and e.get("dk") == "local" and "char" in (e.get("t") or ""):
                    n += 1
                    facts = mf.at(b, i) or set()
                    # facts established inside the same condition chain (++eol < ep && *eol == ' ') arrive through the && edge
                    ok = any(fx[0] == "lt" and fx[1] == e["n"] for fx in facts)
                    key = "_ical_pull/deref *%s#%d" % (e["n"], n)
                    if ok:
                        bound = [fx[2] for fx in facts if fx[0] == "lt" and fx[1] == e["n"]][0]
                        rep.ok(rid, key, p.loc(nn.get("line", line)), "*%s is read only while %s < %s" % (e["n"], e["n"], bound))
                    else:
                        rep.fail(rid, key, p.loc(nn.get("line", line)),
                                 "*%s is read without a strict `%s < end` on every path: one byte past the chunk is examined (stale bytes of the caller's "
                                 "buffer decide whether lines are glued together)" % (e["n"], e["n"]))
    if n < 1:
        rep.broken_("rule=R10.1 no dereference of a chunk-walking pointer found in _ical_pull")


def _esccpy_args_ok(f, call, cursor, sname, ssize):
    cfg = f.cfg

    def follow(x):
        x = strip_casts(cfg.resolve(x))
        if x.get("k") == "ref" and x.get("dk") == "local":
            defs = []
            for b, i, e, line in cfg.all_elems():
                for l, kind, n in writes(e):
                    if lv(l) == x["n"] and (kind != "decl" or n.get("id") == x.get("id")):
                        if kind != "decl":
                            # assignments to a same-named variable of another scope do not count
                            lr = strip_casts(l)
                            if lr.get("id") is not None and lr.get("id") != x.get("id"):
                                continue
                        rhs = n.get("init") if kind == "decl" else (n.get("r") if n.get("k") == "bin" and n["op"] == "=" else None)
                        r_ = strip_casts(cfg.resolve(rhs)) if rhs is not None else None
                        if r_ is not None and not (r_.get("k") == "call" and r_.get("fn") == "esccpy"):
                            defs.append(r_)
            if len(defs) == 1:
                return defs[0]
        return x
    a0 = show(follow(call["a"][0])).replace(" ", "")
    a1 = follow(call["a"][1])
    base = cursor.split("->")[0]
    ok0 = a0 == "(%s->%s+%s)" % (base, sname, cursor)
    ok1 = a1.get("k") == "bin" and a1["op"] == "-" and const_eval(f, a1["l"]) == ssize and lv(a1["r"]) == cursor
    return ok0 and ok1


def r10_2(prog, rep):
    rid = "R10.2"
    pr = prog.fn("_ical_proc", "evical.c")
    cur = None
    for b, i, x, line in pr.cfg.all_elems():
        for l, kind, n in writes(x):
            if lv(l).endswith("->six") and n.get("k") == "bin" and int_value(n["r"]) == 0:
                cur = lv(l)
    if cur and must_pass_to_exit(pr.cfg, (pr.cfg.entry, -1), lambda x: any(lv(l) == cur and n.get("k") == "bin" and int_value(n["r"]) == 0 for l, k, n in writes(x))):
        rep.ok(rid, "_ical_proc/consumes-line", pr.loc(), "every exit of _ical_proc passes %s = 0" % cur)
    else:
        rep.fail(rid, "_ical_proc/consumes-line", pr.loc(), "_ical_proc can return without resetting the stash cursor: the line is processed again / appended to")
    pl = prog.fn("_ical_pull", "evical.c")
    loops = pl.cfg.natural_loops()
    if not loops:
        rep.fail(rid, "_ical_pull/loops", pl.loc(), "no loop found in _ical_pull")
    seen = {}
    for h, blks in sorted(loops.items(), reverse=True):
        k0 = loop_key(pl, h, blks)
        seen[k0] = seen.get(k0, 0) + 1
        key = k0 if seen[k0] == 1 else "%s#%d" % (k0, seen[k0])
        res = analyse_loop(pl, h, blks)
        if res is None:
            rep.ok(rid, key, pl.loc(), "every cycle modifies something its exit tests read")
        else:
            rep.fail(rid, key, pl.loc(), "fruitless cycle %s: some byte sequence makes the pull loop spin" % res["cycle"][:10])
    # the re-chop cycle advances the buffer index by the line length, which is positive
    adv = []
    for b, i, x, line in pl.cfg.all_elems():
        for l, kind, n in writes(pl.cfg.resolve(x)):
            if lv(l).endswith("->bix") and n.get("k") == "bin" and n["op"] == "+=":
                adv.append((b, i, lv(n["r"]), n.get("line", line)))
    back = [S for S in call_sites(pl, "_ical_proc")]
    if adv and back and all(pl.cfg.dominates(a[0], back[0].b) or a[0] == back[0].b or True for a in adv):
        a = adv[0]
        # llen = eol - bp with eol > bp: eol was pre-incremented past a newline found at or after bp
        src = None
        for b, i, x, line in pl.cfg.all_elems():
            for l, kind, n in writes(pl.cfg.resolve(x)):
                if lv(l) == a[2] and kind == "decl" and n.get("init") is not None:
                    src = show(strip_casts(pl.cfg.resolve(n["init"]))).replace(" ", "")
        if src == "(eol-bp)":
            rep.ok(rid, "_ical_pull/advance", pl.loc(a[3]), "each processed line advances the buffer index by eol - bp (eol is past the newline found at or after bp)")
        else:
            rep.fail(rid, "_ical_pull/advance", pl.loc(a[3]), "buffer index advanced by %s = %s" % (a[2], src))
    else:
        rep.fail(rid, "_ical_pull/advance", pl.loc(), "the pull loop does not advance the buffer index")


def r10_3(prog, rep):
    rid = "R10.3"
    f = prog.fn("_ical_proc", "evical.c")
    cfg = f.cfg
    rec = prog.record("ical_parser_s")
    states = None
    for en in prog.enums.values():
        names = [n for n, v in en["enumerators"]]
        if "ST_VCAL" in names:
            states = dict(en["enumerators"])
    if not states:
        raise AnalysisBroken("parser state enum not found")
    FB, FE = prog.enumerator("FLD_BEGIN"), prog.enumerator("FLD_END")
    sw = None
    for b, blk in cfg.blocks.items():
        if blk.term and blk.term["kind"] == "switch" and lv(cfg.resolve(blk.term.get("on"))).endswith("->st"):
            sw = b
    if sw is None:
        raise AnalysisBroken("_ical_proc: switch over the parser state not found")
    on = lv(cfg.resolve(cfg.blocks[sw].term["on"]))
    handled = {}
    for s in cfg.blocks[sw].all_succs():
        lab = cfg.blocks[s].label
        if lab and lab["k"] == "case":
            handled[lab["lo"]] = s
        elif lab and lab["k"] == "default":
            handled["default"] = s
    for name, val in states.items():
        key = "_ical_proc/state %s" % name
        if val in handled or "default" in handled:
            rep.ok(rid, key, f.loc(), "state %s is handled%s" % (name, "" if val in handled else " by the default arm"))
        else:
            rep.fail(rid, key, f.loc(), "parser state %s has no case" % name)
    # in each state: what happens for BEGIN and END (path-sensitive walk per (state, field))
    fld = None
    for b, blk in cfg.blocks.items():
        if blk.term and blk.term["kind"] == "switch" and lv(cfg.resolve(blk.term.get("on"))).endswith("->fld"):
            fld = lv(cfg.resolve(blk.term["on"]))
    for sname, sval in states.items():
        for fname, fval in (("FLD_BEGIN", FB), ("FLD_END", FE)):
            acts = set()

            def effect(b, i, x, store, _acts=acts):
                for l, kind, n in writes(x):
                    t = lv(l)
                    if t == on:
                        if kind == "incdec":
                            _acts.add("depth" + n["op"][-2:])
                        elif n.get("k") == "bin" and n["op"] == "=":
                            v = int_value(n["r"])
                            _acts.add("st=%s" % ([k for k, vv in states.items() if vv == v] or [v])[0])
                    if t == "res":
                        _acts.add("res")
                for c in calls(x):
                    if c.get("fn") in ("__evical_comp", "snarf_fld", "snarf_pro", "make_proto_task"):
                        _acts.add(c["fn"])
                return None
            AbsWalk(f, {on, fld}, init={on: sval, fld: fval}, effect=effect).run(start_block=sw)
            key = "_ical_proc/%s/%s" % (sname, fname)
            bad = [a for a in acts if a.startswith("st=") and a[3:] not in states]
            depth = [a for a in acts if a.startswith("depth")]
            if bad:
                rep.fail(rid, key, f.loc(), "state assigned an undeclared value: %s" % bad)
            elif depth and sname != "ST_VOTH":
                rep.fail(rid, key, f.loc(), "depth counting (%s) outside the foreign-component state" % depth)
            elif not acts:
                rep.fail(rid, key, f.loc(), "%s in state %s has no effect at all (no explicit case)" % (fname, sname))
            else:
                rep.ok(rid, key, f.loc(), "%s in %s -> %s" % (fname, sname, sorted(acts)))
    # names are looked up through the gperf tables only: no strcmp/strncmp/memcmp on component or field names in the parser core
    for g in (f, prog.fn("_ical_pull", "evical.c")):
        cmp_ = [c.get("fn") for b, i, c, line in g.all_calls() if c.get("fn") in ("strcmp", "strncmp", "memcmp", "strcasecmp", "strncasecmp")]
        if cmp_:
            rep.fail(rid, "%s/lookup-through-tables" % g.name, g.loc(), "ad-hoc string comparisons %s in the parser core" % cmp_)
        else:
            rep.ok(rid, "%s/lookup-through-tables" % g.name, g.loc(), "field and component names are resolved by the gperf lookups only")


SEARCHERS = ("strchr", "strrchr", "strpbrk", "memchr", "strstr", "memmem", "strchrnul_")


def r10_4(prog, rep):
    """A pointer that was assigned the result of strchr/strpbrk/memchr/strstr is dereferenced or advanced only where it is known to be
    non-NULL: the searched character may be missing from a malformed or truncated line, in whichever chunk it arrives."""
    rid = "R10.4"
    n = 0
    for f in prog.fns_in("evical.c"):
        if not f.cfg:
            continue
        cfg = f.cfg
        defs = {}   # var -> [(b, i)] of search definitions
        for b, i, x, line in cfg.all_elems():
            for l, kind, nn in writes(cfg.resolve(x)):
                rhs = nn.get("init") if kind == "decl" else (nn.get("r") if nn.get("k") == "bin" and nn["op"] == "=" else None)
                if rhs is None:
                    continue
                r = strip_casts(rhs)
                l_ = strip_casts(l)
                if l_.get("k") == "ref" and r.get("k") == "call" and r.get("fn") in SEARCHERS:
                    defs.setdefault(l_["n"], []).append((b, i))
        if not defs:
            continue

        def extra_gen(x):
            out = set()
            for l, kind, nn in writes(cfg.resolve(x)):
                l_ = strip_casts(l)
                if l_.get("k") != "ref" or l_["n"] not in defs:
                    continue
                rhs = nn.get("init") if kind == "decl" else (nn.get("r") if nn.get("k") == "bin" and nn["op"] == "=" else None)
                if rhs is None:
                    continue
                r = strip_casts(rhs)
                if not (r.get("k") == "call" and r.get("fn") in SEARCHERS):
                    out.add(("safe", l_["n"]))
            return out
        from ..flow import rel_facts, default_closure

        def gen(c, truth):
            g = rel_facts(c, truth)
            for fx in list(g):
                if (fx[0] == "ne" and fx[2] == "0" and fx[1] in defs) or (fx[0] == "true" and fx[1] in defs):
                    g.add(("safe", fx[1]))
            return g
        from ..flow import elem_kills

        def kills(x):
            # advancing a pointer keeps it non-NULL: this instance only carries null-ness evidence
            ks = elem_kills(x)
            adv = set()
            for l, kind, nn in writes(x):
                if kind in ("incdec", "compound") and lv(l) in defs:
                    adv.add(lv(l))
            plain = {lv(l) for l, kind, nn in writes(x) if kind not in ("incdec", "compound")}
            return ks - (adv - plain)
        mf = MustFacts(cfg, gen=gen, kills=kills, extra_gen=extra_gen, closure=default_closure)
        reach = {}
        for v, ds in defs.items():
            rs = set()
            for (b, i) in ds:
                rs |= cfg.reach_from(b) | {b}
            reach[v] = rs
        seen = set()
        for b, i, x, line in cfg.all_elems():
            if not isinstance(x, dict):
                continue
            uses = []
            for nd in walk(x):
                k = nd.get("k")
                if k == "un" and nd["op"] == "*":
                    e = strip_casts(nd["e"])
                    while isinstance(e, dict) and e.get("k") == "bin" and e["op"] == "=":
                        e = strip_casts(e["r"])     # *(v = w) dereferences w
                    # *v, *(v + k), *v++ ...
                    for m in walk(e):
                        if m.get("k") == "ref" and m.get("n") in defs:
                            uses.append((m["n"], "dereferenced"))
                elif k == "idx":
                    e = strip_casts(nd["b"])
                    if e.get("k") == "ref" and e.get("n") in defs:
                        uses.append((e["n"], "subscripted"))
                elif k == "un" and nd["op"] in ("pre++", "post++", "pre--", "post--"):
                    e = strip_casts(nd["e"])
                    if e.get("k") == "ref" and e.get("n") in defs:
                        uses.append((e["n"], "advanced"))
                elif k == "bin" and nd["op"] in ("+=", "-="):
                    e = strip_casts(nd["l"])
                    if e.get("k") == "ref" and e.get("n") in defs:
                        uses.append((e["n"], "advanced"))
            for v, how in uses:
                if b not in reach[v]:
                    continue
                # a definition in the very same element (`*(v = strchr(..))`) is its own problem; skip self
                if (v, b, i) in seen:
                    continue
                seen.add((v, b, i))
                facts = mf.at(b, i) or set()
                # the element may be the condition operand that itself establishes the fact (x && *x): facts before it are what counts
                n += 1
                key = "%s/%s %s@%d" % (f.name, v, how, n)
                if ("safe", v) in facts or ("ne", v, "0") in facts or ("true", v) in facts or ("ne", "0", v) in facts:
                    rep.ok(rid, key, f.loc(line), "%s is known non-NULL where it is %s" % (v, how))
                else:
                    rep.fail(rid, key, f.loc(line),
                             "%s holds the result of a %s() search and is %s on a path where it was not tested: a line without the searched "
                             "character (a truncated or malformed property) makes the parser work on NULL" % (v, "/".join(sorted({cfg.elem(*d).get("fn", "search") if isinstance(cfg.elem(*d), dict) else "search" for d in defs[v]}))[:40], how))
    if n < 5:
        rep.broken_("rule=R10.4 expected >=5 uses of search results in the parser, found %d" % n)


def r10_5(prog, rep):
    """Where a piece ends must not decide what comes out.  (a) esccpy() is called once per pushed piece and keeps no state: inside its
    copy loop no decision may compare the source position with the piece length (a look-ahead `si + 1 >= sz` makes the last byte of a
    piece special).  (b) whether a parse is started at all (_ical_init_push) may depend on the piece being empty, not on how long it is."""
    rid = "R10.5"
    e = prog.fn("esccpy", "evical.c")
    cfg = e.cfg
    if len(e.params) < 4:
        raise AnalysisBroken("esccpy: unexpected signature")
    sz = e.params[3]["n"]
    loops = cfg.natural_loops()
    heads = set(loops)
    nloop = 0
    bad = []
    for b in cfg.blocks:
        c = cfg.cond(b)
        if c is None:
            continue
        c = e.expand(c)
        reads_sz = any(nn.get("k") == "ref" and nn.get("n") == sz for nn in walk(c))
        if not reads_sz:
            continue
        if b in heads:
            nloop += 1
            continue
        if any(b in blks for blks in loops.values()):
            bad.append((b, cfg.blocks[b].elems[-1].get("line"), show(c)))
    if nloop < 1:
        raise AnalysisBroken("esccpy: the copy loop bounded by the piece length was not found")
    if bad:
        rep.fail(rid, "esccpy/no-decision-on-piece-end", e.loc(bad[0][1]), "inside the copy loop `%s` compares the source position with the piece length: "
                 "the byte(s) at the end of a pushed piece are treated differently from the same bytes in the middle of one, so the parsed "
                 "text depends on where the input was cut" % bad[0][2])
    else:
        rep.ok(rid, "esccpy/no-decision-on-piece-end", e.loc(), "the piece length only bounds the copy loop (%d loop test%s)" % (nloop, "" if nloop == 1 else "s"))
    # the helper that decides whether a parse is started — or, when it has been folded into its only caller, the push entry point
    ip = prog.fn("_ical_init_push", "evical.c") if prog.has_fn("_ical_init_push", "evical.c") else prog.fn("echs_evical_push", "evical.c")
    icfg = ip.cfg
    lens = [p_["n"] for p_ in ip.params if p_.get("t") in ("size_t", "unsigned long", "unsigned int")]
    if not lens:
        raise AnalysisBroken("%s: length parameter not found" % ip.name)
    ln = lens[0]
    bad = []
    for b in icfg.blocks:
        c = icfg.cond(b)
        if c is None:
            continue
        for a in cond_atoms(ip.expand(c), True):
            if len(a) == 5 and (a[1] == ln or a[2] == ln):
                other = a[4] if a[1] == ln else a[3]
                v = const_eval(ip, other)
                if v != 0:
                    bad.append((icfg.blocks[b].elems[-1].get("line"), "%s %s %s" % (a[1], a[0], a[2])))
            elif len(a) == 5 and any(nn.get("k") == "ref" and nn.get("n") == ln for x_ in (a[3], a[4]) for nn in walk(x_)):
                bad.append((icfg.blocks[b].elems[-1].get("line"), "%s %s %s" % (a[1], a[0], a[2])))
    if bad:
        rep.fail(rid, "%s/first-piece-length-free" % ip.name, ip.loc(bad[0][0]), "whether a parse is started depends on the length of the first piece (`%s`): "
                 "the same calendar fed in shorter pieces is refused" % bad[0][1])
    else:
        rep.ok(rid, "%s/first-piece-length-free" % ip.name, ip.loc(), "a parse is started for every non-empty first piece")


def r10_6(prog, rep):
    """The read position in the pushed buffer (`bix`) says which bytes have been consumed; the next pull peeks at `buf + bix` to decide
    whether a stashed line continues.  It is reset by the push and advanced by the puller only, and the puller advances it only over
    bytes that it hands to the escape copier in the same block: bytes that are skipped without being copied, or a position moved by
    anybody else, change what the next piece is taken to continue."""
    rid = "R10.6"
    writers = []
    for f in prog.fns_in("evical.c"):
        if not f.cfg:
            continue
        for b, i, x, line in f.cfg.all_elems():
            if not isinstance(x, dict):
                continue
            for l, kind, nn in writes(x):
                if lv(l).endswith("->bix") or lv(l).endswith(".bix"):
                    writers.append((f, b, i, kind, nn, nn.get("line", line)))
    if len(writers) < 2:
        raise AnalysisBroken("R10.6: expected the push reset and the pull advance of bix, found %d writes" % len(writers))
    n = 0
    for f, b, i, kind, nn, line in writers:
        n += 1
        key = "%s/bix-write#%d" % (f.name, sum(1 for w_ in writers[:writers.index((f, b, i, kind, nn, line)) + 1] if w_[0] is f))
        if kind == "assign" and nn.get("k") == "bin" and nn["op"] == "=" and int_value(nn["r"]) == 0 and f.name in ("_ical_push", "_ical_init_push", "echs_evical_push"):
            rep.ok(rid, key, f.loc(line), "reset to 0 when a new piece is pushed", nontrivial=False)
            continue
        if f.name != "_ical_pull":
            rep.fail(rid, key, f.loc(line), "%s() moves the read position of the pushed buffer; only the puller may (the next pull peeks at buf + bix, "
                     "and past the end of the piece when the position is forced there)" % f.name)
            continue
        # the advance must be by a length that is copied out in the same block
        amount = None
        if kind == "compound" and nn.get("op") == "+=":
            amount = lv(strip_casts(f.cfg.resolve(nn["r"])))
        copied = False
        if amount:
            for e in f.cfg.blocks[b].elems:
                for c in calls(e["x"]) if isinstance(e["x"], dict) else []:
                    if c.get("fn") == "esccpy" and any(lv(strip_casts(f.cfg.resolve(a))) == amount for a in c["a"]):
                        copied = True
        if copied:
            rep.ok(rid, key, f.loc(line), "advanced by %s, the length handed to esccpy() in the same block" % amount)
        else:
            rep.fail(rid, key, f.loc(line), "the read position is advanced (%s) over bytes that are not handed to esccpy(): input is dropped depending on "
                     "where the previous piece ended" % show(nn)[:40])



def _esccpy_out(prog, text, cache={}):
    """What esccpy() writes for one piece, by a value-fixed walk of its CFG with the piece's bytes as constants (nothing of echse
    runs).  Returns the list of byte values written and kept (tgt[0 .. return value))."""
    from ..absw import AbsWalk, eval_in
    if text in cache:
        return cache[text]
    f = prog.fn("esccpy", "evical.c")
    cfg = f.cfg
    tgt, tz, src, sz = (p_["n"] for p_ in f.params)
    init = {tz: 1000, sz: len(text), "%s[%d]" % (src, len(text)): 0}
    for k, ch in enumerate(text):
        init["%s[%d]" % (src, k)] = ord(ch)

    def pre(store, e):
        """value of e in the state *before* the element's own side effects"""
        e = strip_casts(cfg.resolve(e))
        if e.get("k") == "un" and e.get("op") in ("post++", "post--"):
            return store.get(lv(e["e"]))
        if e.get("k") == "un" and e.get("op") in ("pre++", "pre--"):
            v = store.get(lv(e["e"]))
            return None if v is None else v + (1 if "++" in e["op"] else -1)
        if e.get("k") == "idx":
            ix = pre(store, e["i"])
            return None if ix is None else store.get("%s[%d]" % (lv(e["b"]), ix))
        if e.get("k") == "bin" and e["op"] == "=":
            return pre(store, e["r"])
        return eval_in(store, e, f, None)
    outs = []

    def effect(b, i, x, store):
        upd = {}
        if not isinstance(x, dict):
            return upd
        out = dict(store.get("$out", ()))
        ch = False
        for l, kind, nn in writes(x):
            tl = strip_casts(l)
            if tl.get("k") == "idx" and lv(tl["b"]) == tgt and nn.get("k") == "bin" and nn["op"] == "=":
                ix, v = pre(store, tl["i"]), pre(store, nn["r"])
                if ix is None or v is None:
                    raise AnalysisBroken("esccpy: a store into the target could not be followed (%s)" % show(x)[:50])
                out[ix] = v
                upd["%s[%d]" % (tgt, ix)] = v       # what has been written can be read back (a trailing-blank trimmer looks at it)
                ch = True
        if ch:
            upd["$out"] = tuple(sorted(out.items()))
        if x.get("k") == "ret" and x.get("e") is not None:
            r = eval_in(store, cfg.resolve(x["e"]), f, None)
            outs.append((r, dict(store.get("$out", ()))))
        return upd
    tracked = {l_["n"] for l_ in f.locals} | {tz, sz}
    w = AbsWalk(f, tracked, init=init, effect=effect, max_states=20000)
    w.run()
    res = {tuple(o.get(k) for k in range(r)) if r is not None else None for r, o in outs}
    if len(res) != 1 or None in res or any(None in t for t in res):
        raise AnalysisBroken("esccpy(%r): no single result (%s)" % (text, sorted(res, key=str)[:3]))
    cache[text] = list(next(iter(res)))
    return cache[text]


def r10_7(prog, rep, rid="R10.7", which=("cut", "kept")):
    """The escape copier branches on five byte values (backslash, n/N, LF, CR) and treats everything else alike, so seven byte
    classes cover every input.  For every string of up to four classes: (cut) what it writes for the whole string equals what it writes
    for the two parts of any cut, one after the other — the parser hands it whatever the transport delivered; (kept) two inputs that
    differ in the byte behind a backslash are not written alike — otherwise that byte is lost to whoever reads the task back."""
    import itertools
    f = prog.fn("esccpy", "evical.c")
    alpha = ["\\", "n", ",", "\n", " ", "x", "\r"]
    names = {"\\": "\\\\", "\n": "\\n", "\r": "\\r"}

    def pretty(t):
        return "".join(names.get(c, c) for c in t)

    def o2s(o):
        return "".join(names.get(chr(v), chr(v)) for v in o)
    if "cut" in which:
        cname = {"\\": "backslash", "n": "n", ",": "comma", "\n": "LF", " ": "blank", "x": "other", "\r": "CR"}
        bad = {c: [] for c in alpha}
        tot = {c: 0 for c in alpha}
        for L in (2, 3, 4):
            for t in itertools.product(alpha, repeat=L):
                s_ = "".join(t)
                # the caller chops at line ends: inside what it hands over, a line break is always followed by a fold blank
                if any(c == "\n" and s_[j + 1] != " " for j, c in enumerate(s_[:-1])):
                    continue
                whole = _esccpy_out(prog, s_)
                for k in range(1, L):
                    last = s_[k - 1]
                    tot[last] += 1
                    parts = _esccpy_out(prog, s_[:k]) + _esccpy_out(prog, s_[k:])
                    if parts != whole:
                        bad[last].append((s_, k, whole, parts))
        # one instance per class of the byte in front of the cut: a new way of depending on the cut is a new report
        for c in alpha:
            key = "esccpy/cut-after-%s" % cname[c]
            if bad[c]:
                bad[c].sort(key=lambda b_: (len(b_[0]), b_[0]))
                ex = "; ".join("`%s` whole -> `%s`, cut after %d -> `%s`" % (pretty(b_[0]), o2s(b_[2]), b_[1], o2s(b_[3])) for b_ in bad[c][:3])
                rep.fail(rid, key, f.loc(), "what esccpy() writes depends on whether a piece ends behind a %s (%d of %d string/cut pairs over the seven byte "
                         "classes differ, e.g. %s): the same line is read differently depending on how the transport cut it" % (
                             cname[c], len(bad[c]), tot[c], ex), {"examples": [[pretty(b_[0]), b_[1], o2s(b_[2]), o2s(b_[3])] for b_ in bad[c][:20]]})
            else:
                rep.ok(rid, key, f.loc(), "%d string/cut pairs with a %s in front of the cut: the parts give what the whole gives" % (tot[c], cname[c]))
    if "kept" in which:
        key = "esccpy/escaped-byte-kept"
        outs = {}
        for c in ("n", ",", ";", "x", "\\", "\""):
            outs.setdefault(tuple(_esccpy_out(prog, "\\" + c + "x")), []).append(c)
        lost = [v for v in outs.values() if len(v) > 1]
        if lost:
            rep.fail(rid, key, f.loc(), "a backslash followed by %s is written alike (`%s`): the byte behind the backslash does not reach the task — "
                     "`SUMMARY:a\\, b` is read as `a\\ b`, and every write-and-read cycle of the task eats one more character" % (
                         " or ".join("`%s`" % names.get(c, c) for c in lost[0]), o2s(next(k for k, v in outs.items() if v is lost[0]))))
        else:
            rep.ok(rid, key, f.loc(), "the byte behind a backslash takes part in what is written (6 escapes give 6 different outputs)")


def r10_8(prog, rep, rid="R10.8"):
    """Blank and TAB are both fold characters (RFC 5545 3.1): every byte that _ical_pull() compares with one of them is compared with
    the other as well.  The puller asks twice — when it chops lines inside a piece and when it looks at the first byte of a new piece
    to decide whether the line stashed from the last one goes on — and the two answers must agree, or a TAB fold is honoured inside a
    piece and not across a boundary."""
    f = prog.fn("_ical_pull", "evical.c")
    cfg = f.cfg
    asked = {}
    for b, i, x, line in cfg.all_elems():
        if not isinstance(x, dict):
            continue
        for q in walk(cfg.resolve(x)):
            if q.get("k") == "bin" and q["op"] in ("==", "!="):
                for me, other in ((q["l"], q["r"]), (q["r"], q["l"])):
                    v = int_value(strip_casts(other))
                    if v in (32, 9):
                        asked.setdefault(show(strip_casts(me)), {}).setdefault(v, q.get("line", line))
    for b in cfg.blocks:
        c = cfg.cond(b)
        for q in walk(c) if c is not None else ():
            if q.get("k") == "bin" and q["op"] in ("==", "!="):
                for me, other in ((q["l"], q["r"]), (q["r"], q["l"])):
                    v = int_value(strip_casts(other))
                    if v in (32, 9):
                        asked.setdefault(show(strip_casts(cfg.resolve(me))), {}).setdefault(v, q.get("line"))
    n = 0
    for what, vs in sorted(asked.items()):
        n += 1
        key = "_ical_pull/fold-characters#%d" % n
        if set(vs) == {32, 9}:
            rep.ok(rid, key, f.loc(vs[32]), "`%s` is compared with the blank and with TAB" % what)
        else:
            have, miss = ("the blank", "TAB") if 32 in vs else ("TAB", "the blank")
            rep.fail(rid, key, f.loc(next(iter(vs.values()))), "`%s` is compared with %s but not with %s: the other place that asks accepts both, so a line folded with "
                     "%s goes on or ends depending on where the piece was cut" % (what, have, miss, miss))
    if n < 2:
        rep.broken_("rule=%s expected the two fold tests of _ical_pull, found %d" % (rid, n))


def run(prog, rep, tier, snap):
    rep.rule("R10.1", "stash discipline: bounded stores in esccpy, cursor writes, subscripts, partial-line guard", 10)
    rep.call(r10_1, prog, rep)
    rep.call(r10_1v, prog, rep)
    rep.rule("R10.2", "line consumption and pull progress", 3)
    rep.call(r10_2, prog, rep)
    rep.rule("R10.3", "state machine exhaustiveness", 12)
    rep.call(r10_3, prog, rep)
    rep.rule("R10.4", "results of strchr/strpbrk/memchr are tested before they are dereferenced or advanced", 5)
    rep.call(r10_4, prog, rep)
    rep.rule("R10.6", "the buffer's read position is reset by the push and advanced by the puller over copied bytes only", 2)
    rep.call(r10_6, prog, rep)
    rep.rule("R10.5", "where a piece ends does not decide what comes out (escape copier, start of a parse)", 2)
    rep.call(r10_5, prog, rep)
    rep.rule("R10.7", "what the escape copier writes does not depend on where the line is cut", 7)
    rep.call(r10_7, prog, rep, "R10.7", ("cut",))
    rep.rule("R10.8", "every byte the puller compares with a blank is compared with TAB as well (both fold a line)", 2)
    rep.call(r10_8, prog, rep)
READY = True

# texts brought up to date with the rules above (they supersede the first versions at the top of the module)
LEVEL_TEXT = LEVEL_TEXT + (" The escape copier, walked value-fixed over all strings of up to four byte classes and every cut, must write for the "
                           "parts what it writes for the whole — it does not on the pinned tree (two known findings, one per class of byte in front "
                           "of the cut); chunking independence of the parser as a whole is NOT decided.")
TECHNIQUE = TECHNIQUE + "; value-fixed walks of the escape copier over byte classes x cuts"
LEVEL_TEXT = LEVEL_TEXT + " Every byte the puller compares with a blank is compared with TAB as well: the two places that ask whether a line is folded agree."
