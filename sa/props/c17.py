"""C17 — BYEASTER and SHIFT extensions mean what the README says (narrow structural clauses)."""
from ..facts import walk, strip, strip_casts, lv, show, writes, calls, int_value
from ..flow import MustFacts, cond_atoms
from ..q import call_sites, site_before, const_eval, Site
from ..rules import fillers, bitint
from ..snapshot import AnalysisBroken

UNITS = None
EXPLANATION = (
    "R17.1 SHIFT bit layout: the packing in snarf_shift (day count << D, business-day count << B, sign in bit 0, inversion in bit 1) "
    "equals the layout every reader unpacks (shift.h accessors, send_rrul's direct shift): same shift counts, masks cover exactly the "
    "business field, flag bits below it. R17.2 pipeline: in both fillers that call them the stage order is candidates -> clr_poss -> shift -> "
    "guarded commit (so the shifted date replaces the unshifted one and is subject to DTSTART/COUNT/UNTIL); fill_yly_eastr is reached "
    "exactly under `Gregorian scale && BYEASTER has members`; BYEASTER's parser guard lies inside the container's domain; the business-day "
    "letter and the B+/B- direction forms are parsed. R17.3 carry pairs: where a month variable carries into a year variable, calendar "
    "helpers taking (year, month) are handed that pair, not the starting year.")
NOT_DECIDED = "the business-day arithmetic of shift() over candidate sets (value-level); the computus is decided for the 199 years of the range only; the behaviour itself"
TRUSTED = ["clang 14 parser/CFG builder", "echse-facts extractor", "python rule engines in /verif/sa"]
LEVEL_TEXT = ("Static verdict on narrow necessary clauses of C17 only: writer/reader agreement of the packed SHIFT value, the order of the "
              "BYSETPOS/SHIFT/guard stages, reachability and guard of the BYEASTER expansion. The Easter computus and business-day "
              "arithmetic are NOT decided.")
LEVEL_NOTE = "Trusted: clang 14 front end/CFG, extractor, rule engines."
TECHNIQUE = "static analysis: bit-layout agreement between packing and unpacking expressions, dominance/order of pipeline stages"


def _shifts_of(x, names):
    """{name: shift count} for sub-expressions `name << C` in x."""
    out = {}
    for n in walk(x):
        if n.get("k") == "bin" and n["op"] == "<<":
            l = strip_casts(n["l"])
            c = int_value(n["r"])
            if l.get("k") == "ref" and l["n"] in names and c is not None:
                out[l["n"]] = c
    return out


def r17_1(prog, rep):
    rid = "R17.1"
    w = prog.fn("snarf_shift", "evical.c")
    cfg = w.cfg
    ret = None
    for b, i, x, line in cfg.all_elems():
        if isinstance(x, dict) and x.get("k") == "ret":
            e = cfg.resolve(x["e"])
            if int_value(e) is None:
                ret = e
    if ret is None:
        raise AnalysisBroken("snarf_shift: packing return not found")
    refs = [n["n"] for n in walk(ret) if n.get("k") == "ref" and n.get("dk") == "local"]
    sh = _shifts_of(ret, set(refs))
    if len(sh) != 2:
        raise AnalysisBroken("snarf_shift: expected two shifted fields in %s" % show(ret))
    (dn, D), (bn, B) = sorted(sh.items(), key=lambda kv: -kv[1])
    flag = [r for r in refs if r not in sh]
    if len(set(flag)) != 1:
        raise AnalysisBroken("snarf_shift: expected one unshifted flag word in %s" % show(ret))
    sem = flag[0]
    # bits set in the flag word
    bits = {}
    bit0_nodes = []
    for b, i, x, line in cfg.all_elems():
        for l, kind, n in writes(x):
            if lv(l) == sem and n.get("k") == "bin" and n["op"] == "|=":
                r = strip_casts(n["r"])
                if r.get("k") == "bin" and r["op"] == "<<" and int_value(r["r"]) is not None:
                    bits.setdefault(int_value(r["r"]), []).append(show(r["l"]))
                else:
                    bits.setdefault(0, []).append(show(r))
                    bit0_nodes.append(cfg.resolve(r))
    rep.extra["R17.1_layout"] = {"day_shift": D, "bday_shift": B, "flag_bits": {str(k): v for k, v in bits.items()}}
    if set(bits) <= {0, 1} and 0 in bits and 1 in bits and B >= 2 and D > B:
        rep.ok(rid, "snarf_shift/packing", w.loc(), "(%s << %d) ^ (%s << %d) ^ flags{bit0 sign, bit1 direction}" % (dn, D, bn, B))
    else:
        rep.fail(rid, "snarf_shift/packing", w.loc(), "packing layout not {days<<D, bdays<<B>=2, flags in bits 0/1}: D=%d B=%d flags=%s" % (D, B, sorted(bits)))
    sign_terms = " ".join(bits.get(0, []))
    from ..flow import cond_atoms as _ca
    is_neg_test = any(len(a) == 5 and a[0] == "<" and int_value(a[4]) == 0 and int_value(a[3]) is None
                      for nd_ in bit0_nodes for a in _ca(nd_, True))
    if is_neg_test:
        rep.ok(rid, "snarf_shift/sign-bit", w.loc(), "bit 0 carries the sign of the business-day count (%s)" % sign_terms)
    else:
        rep.fail(rid, "snarf_shift/sign-bit", w.loc(), "bit 0 is not set from a `< 0` test: %s" % sign_terms)
    # readers
    want = {
        "echs_shift_dvalue": ("shift", D, None),
        "echs_shift_bday_p": ("mask", None, (1 << D) - 1),
        "echs_shift_neg_p": ("mask", None, 1),
        "echs_shift_inv_p": ("mask", None, 2),
        "echs_shift_bvalue": ("maskshift", B, (1 << D) - 1),
        "echs_shift_absval": ("maskshift", B, (1 << D) - 1),
    }
    def unpacking(name, seen=()):
        """Masks and shift counts an accessor applies to the packed word, its own and those of the sibling accessors it goes through."""
        f_ = prog.fn(name, "shift.h")
        masks_, shifts_ = set(), set()
        for b, i, x, line in f_.cfg.all_elems():
            for n in walk(f_.cfg.resolve(x)):
                if n.get("k") == "bin" and n["op"] == "&" and int_value(n["r"]) is not None:
                    masks_.add(int_value(n["r"]))
                if n.get("k") == "bin" and n["op"] == ">>" and int_value(n["r"]) is not None:
                    shifts_.add(int_value(n["r"]))
                if n.get("k") == "call" and n.get("fn") in want and n["fn"] != name and n["fn"] not in seen:
                    m2, s2 = unpacking(n["fn"], tuple(seen) + (name,))
                    masks_ |= m2
                    shifts_ |= s2
        return masks_, shifts_
    for name, (kind, shc, mask) in want.items():
        f = prog.fn(name, "shift.h")
        masks, shifts = unpacking(name)
        ok = True
        if kind in ("shift", "maskshift") and shc not in shifts:
            ok = False
        if kind in ("mask", "maskshift") and mask not in masks:
            ok = False
        if name == "echs_shift_bvalue" and 1 not in masks:
            ok = False  # sign applied from bit 0
        key = "shift.h/%s" % name
        if ok:
            rep.ok(rid, key, f.loc(), "unpacks with masks %s shifts %s, matching the packing" % (sorted(map(hex, masks)), sorted(shifts)))
        else:
            rep.fail(rid, key, f.loc(), "%s unpacks with masks %s / shifts %s but the writer packs days<<%d, bdays<<%d, sign bit0, direction bit1" % (
                name, sorted(map(hex, masks)), sorted(shifts), D, B))
    # direct readers of the raw value
    sr = prog.fn("send_rrul", "evical.c")
    raw = []
    for b, i, x, line in sr.cfg.all_elems():
        for n in walk(sr.cfg.resolve(x)):
            if n.get("k") == "bin" and n["op"] in (">>", "&") and lv(strip_casts(sr.expand(n["l"]))).endswith("->shift"):
                raw.append((n["op"], int_value(n["r"]), n.get("line", line)))
    for op, c, ln in raw:
        key = "send_rrul/raw-shift %s %s" % (op, c)
        if (op == ">>" and c == D):
            rep.ok(rid, key, sr.loc(ln), "serialiser prints the day part as shift >> %d" % D)
        else:
            rep.fail(rid, key, sr.loc(ln), "serialiser reads the packed SHIFT with `%s %s`, the writer packs days << %d" % (op, c, D))
    # business letter and direction forms are parsed
    cases = set()
    for blk in cfg.blocks.values():
        if blk.label and blk.label["k"] == "case" and blk.label.get("lo") is not None:
            cases.add(blk.label["lo"])
    need = {ord("b"), ord("B"), ord("+"), ord("-"), ord(","), ord(";"), 0}
    if need <= cases:
        rep.ok(rid, "snarf_shift/forms", w.loc(), "parses N, NB, NB+, NB-, comma lists and terminators")
    else:
        rep.fail(rid, "snarf_shift/forms", w.loc(), "SHIFT forms no longer parsed: missing case(s) %s" % sorted(chr(c) if c else "\\0" for c in need - cases))


def r17_2(prog, rep):
    rid = "R17.2"
    n = 0
    for f in fillers.fillers(prog):
        cp, sh = call_sites(f, "clr_poss"), call_sites(f, "shift")
        if not cp and not sh:
            continue
        n += 1
        cfg = f.cfg
        stores = [Site(b, i, None, ln) for b, i, idx, x, ln in fillers.tgt_stores(f)]
        cands = [S for S in f.all_calls() if (S[2].get("fn") or "").startswith("fill_")]
        key = "%s/candidates->poss->shift->commit" % f.name
        ok = bool(cp) and bool(sh) and site_before(cfg, cp[0], sh[0]) and all(site_before(cfg, sh[0], s) for s in stores)
        # every candidate builder is evaluated before clr_poss
        ok2 = False
        if cp:
            from ..q import forward_scan
            loops = cfg.natural_loops()
            hdrs = {h for h, blks in loops.items() if cp[0].b in blks}
            first = {"v": True}

            def visit(b_, i_, x_):
                if i_ == 0 and b_ in hdrs:
                    return "stop"
                for c_ in calls(x_):
                    if (c_.get("fn") or "").startswith("fill_"):
                        return "hit"
                return None
            # stop at the enclosing loop headers: the next iteration legitimately builds candidates again
            hits, _ = forward_scan(cfg, (cp[0].b, cp[0].i), lambda b_, i_, x_: ("stop" if (b_ in hdrs and b_ != cp[0].b) else visit(b_, i_, x_)))
            ok2 = not hits and bool(cands)
        if ok and ok2:
            rep.ok(rid, key, f.loc(sh[0].line), "no candidate builder (%d sites) runs after clr_poss within an iteration; clr_poss precedes shift, which precedes every store" % len(cands))
        else:
            rep.fail(rid, key, f.loc(), "stage order broken: candidates-before-poss=%s poss-before-shift-before-stores=%s" % (ok2, ok))
        # both operate on the candidate set that is iterated for the stores
        a_cp, a_sh = lv(cfg.resolve(cp[0].node["a"][0])) if cp else None, lv(cfg.resolve(sh[0].node["a"][0])) if sh else None
        it = None
        for b, i, c, ln in f.all_calls():
            if c.get("fn") == "bi383_next":
                t = lv(strip_casts(f.expand(cfg.resolve(c["a"][1]))))
                if t.startswith("&" + (a_sh or "?")):
                    it = t
        if a_cp == a_sh and it:
            rep.ok(rid, "%s/same-candidate-set" % f.name, f.loc(), "clr_poss, shift and the emitting iteration all use `%s`" % a_sh)
        else:
            rep.fail(rid, "%s/same-candidate-set" % f.name, f.loc(), "clr_poss(%s) / shift(%s) / iteration(%s) do not operate on one candidate set" % (a_cp, a_sh, it))
        # shift receives the rule's shift value; clr_poss the rule's BYSETPOS set
        if sh and lv(cfg.resolve(sh[0].node["a"][-1])).endswith("->shift") and cp and lv(cfg.resolve(cp[0].node["a"][-1])).endswith("->pos"):
            rep.ok(rid, "%s/stage-arguments" % f.name, f.loc(), "shift(.., rr->shift), clr_poss(.., &rr->pos)")
        else:
            rep.fail(rid, "%s/stage-arguments" % f.name, f.loc(), "shift/clr_poss are not fed rr->shift / rr->pos")
        # UNTIL bounds the *shifted* dates: inside the expansion loop every test that involves UNTIL lies behind shift()
        # (a backward SHIFT carries candidates of the year/month after UNTIL back in front of it)
        if sh:
            uvars = set()
            grew = True
            while grew:
                grew = False
                for b, i, x, ln in cfg.all_elems():
                    for l, kind, nn in writes(x):
                        rhs = nn.get("init") if kind == "decl" else (nn.get("r") if nn.get("k") == "bin" and nn["op"] == "=" else None)
                        if rhs is None or strip_casts(l).get("k") != "ref" or lv(l) in uvars:
                            continue
                        rr_ = cfg.resolve(rhs)
                        if any((q.get("k") == "mem" and q.get("f") == "until") or (q.get("k") == "ref" and q.get("n") in uvars) for q in walk(rr_)):
                            uvars.add(lv(l))
                            grew = True
            loops = cfg.natural_loops()
            inloop = set().union(*[blks for h, blks in loops.items() if sh[0].b in blks]) if loops else set()
            early = []
            for b in inloop:
                c = cfg.cond(b)
                if c is None:
                    continue
                if any((q.get("k") == "ref" and q.get("n") in uvars) or (q.get("k") == "mem" and q.get("f") == "until" and lv(q).endswith("->until"))
                       for q in walk(c)) and not (cfg.dominates(sh[0].b, b) and b != sh[0].b):
                    early.append((cfg.blocks[b].elems[-1].get("line"), show(c)[:80]))
            keyu = "%s/until-tested-behind-shift" % f.name
            if early:
                rep.fail(rid, keyu, f.loc(early[0][0]), "`%s` tests UNTIL inside the expansion loop before shift() has run: a date that a backward SHIFT moves "
                         "in front of UNTIL is cut off (the last legitimate occurrence is lost)" % early[0][1])
            else:
                rep.ok(rid, keyu, f.loc(sh[0].line), "inside the expansion loop UNTIL (%s) is only compared behind shift()" % ", ".join(sorted(uvars)) if uvars else "UNTIL is only compared behind shift()")
    if n != 2:
        rep.broken_("rule=R17.2 expected 2 fillers with the poss/shift pipeline, found %d" % n)
    # BYEASTER expansion reached exactly under (gregorian && easter has members)
    y = prog.fn("rrul_fill_yly", "evrrul.c")
    es = call_sites(y, "fill_yly_eastr")
    if len(es) != 1:
        rep.fail(rid, "rrul_fill_yly/easter-call", y.loc(), "expected one call of fill_yly_eastr, found %d" % len(es))
    else:
        E = es[0]
        facts = MustFacts(y.cfg).at(E.b, E.i) or set()
        greg = any(fx[0] == "eq" and "srcsca" in fx[1:] and ("SCALE_GREGORIAN" in fx[1:] or "0" in fx[1:]) for fx in facts)
        has = any(fx[0] == "true" and "bi383_has_bits_p(" in fx[1] and "easter" in fx[1] for fx in facts)
        if greg and has:
            rep.ok(rid, "rrul_fill_yly/easter-guard", y.loc(E.line), "fill_yly_eastr runs under srcsca == SCALE_GREGORIAN && BYEASTER non-empty")
        else:
            rep.fail(rid, "rrul_fill_yly/easter-guard", y.loc(E.line), "fill_yly_eastr is not guarded by (Gregorian scale && BYEASTER non-empty): %s" % sorted(facts))
        a = [lv(strip_casts(y.cfg.resolve(x))) for x in E.node["a"]]
        if any(t.endswith("->easter") for t in a):
            rep.ok(rid, "rrul_fill_yly/easter-arg", y.loc(E.line), "the BYEASTER set is passed to the expansion")
        else:
            rep.fail(rid, "rrul_fill_yly/easter-arg", y.loc(E.line), "fill_yly_eastr is not passed rr->easter")
    # parser guard of BYEASTER within the container's domain (same computation as R19.1, this site only)
    sf = prog.fn("snarf_rrule", "evical.c")
    mf = MustFacts(sf.cfg)
    ok = False
    for b, i, c, line in sf.all_calls():
        if c.get("fn") == "ass_bi383" and lv(strip_casts(sf.cfg.resolve(c["a"][0]))).endswith("rr.easter"):
            lo, hi, nz = bitint.arg_interval(sf, mf, b, i, lv(strip_casts(sf.cfg.resolve(c["a"][1]))))
            dlo, dhi = bitint.container_domain(prog, "ass_bi383")
            if lo is not None and hi is not None and dlo <= lo and hi <= dhi and lo <= -366 and hi >= 366:
                rep.ok(rid, "snarf_rrule/BYEASTER-guard", sf.loc(line), "BYEASTER admits [%d, %d] (README: -366..366), inside the container domain [%d, %d]" % (lo, hi, dlo, dhi))
            else:
                rep.fail(rid, "snarf_rrule/BYEASTER-guard", sf.loc(line), "BYEASTER guard admits [%s, %s]; README says -366..366 and the container holds [%d, %d]" % (lo, hi, dlo, dhi))
            ok = True
    if not ok:
        rep.fail(rid, "snarf_rrule/BYEASTER-guard", sf.loc(), "BYEASTER is no longer stored by the parser")


def r17_3(prog, rep):
    """Carry pairs.  Where a function carries a month variable into a year variable (`M += 12, Y--` / `M -= 12, Y++`), the two form one
    date; every calendar helper that takes (year, month) and is handed M must be handed the paired Y, not the year the walk started from."""
    rid = "R17.3"
    n = 0
    for f in prog.fns_in("evrrul.c"):
        if not f.cfg:
            continue
        cfg = f.cfg
        pairs = {}
        for b, blk in cfg.blocks.items():
            months, years = set(), set()
            for e in blk.elems:
                x = e["x"]
                if not isinstance(x, dict):
                    continue
                for l, kind, nn in writes(x):
                    if kind == "compound" and nn.get("op") in ("+=", "-=") and int_value(cfg.resolve(nn["r"])) == 12:
                        months.add(lv(l))
                    elif kind == "incdec":
                        years.add(lv(l))
            if len(months) == 1 and len(years - months) == 1:
                pairs.setdefault(months.pop(), set()).add((years - months).pop())
        if not pairs:
            continue
        # a carry done inside a helper that the inliner spliced in comes back through `Y = __ret_helper`, `__ret_helper = Y$helper`:
        # the receiving variable is the paired year
        for _round in range(3):
            for b, i, x, line in cfg.all_elems():
                for l, kind, nn in writes(x):
                    if kind == "assign" and nn.get("k") == "bin" and nn["op"] == "=":
                        r = strip_casts(cfg.resolve(nn["r"]))
                        if r.get("k") == "ref" and ("$" in r["n"] or r["n"].startswith("__ret_")):
                            for m_, ys in pairs.items():
                                if r["n"] in ys:
                                    ys.add(lv(l))
        for b, i, c, line in f.all_calls():
            callee = c.get("fn")
            if not callee or not prog.functions.get(callee):
                continue
            pn = [p_["n"] for p_ in prog.functions[callee][0].params]
            if "y" not in pn or "m" not in pn or len(c["a"]) < len(pn):
                continue
            ya, ma = lv(strip_casts(cfg.resolve(c["a"][pn.index("y")]))), lv(strip_casts(cfg.resolve(c["a"][pn.index("m")])))
            if ma not in pairs:
                continue
            n += 1
            key = "%s/%s(%s)@%d" % (f.name, callee, ma, sum(1 for bb, ii, cc, ll in f.all_calls() if cc.get("fn") == callee and (ll, bb, ii) <= (line, b, i)))
            if ya in pairs[ma]:
                rep.ok(rid, key, f.loc(line), "%s(%s, %s): year and month of one carry pair" % (callee, ya, ma))
            else:
                rep.fail(rid, key, f.loc(line),
                         "%s() is asked about month %s of year `%s`, but %s carries into %s: once the walk has crossed a year boundary the month "
                         "length/weekday of the wrong year is used (February of a leap vs. common year)" % (callee, ma, ya, ma, "/".join(sorted(pairs[ma]))))
        # ... and a month length must not be looked up by the carried month alone: a table indexed with M knows nothing of the year
        # the walk has carried into (a copy of the month lengths prepared for the start year is stale after the first carry)
        for b, i, x, line in cfg.all_elems():
            if not isinstance(x, dict):
                continue
            for nn in walk(cfg.resolve(x)):
                if nn.get("k") == "idx" and lv(strip_casts(nn["i"])) in pairs:
                    arr = strip_casts(nn["b"])
                    n += 1
                    rep.fail(rid, "%s/%s[%s]" % (f.name, lv(arr), lv(strip_casts(nn["i"]))), f.loc(nn.get("line", line)),
                             "`%s` is subscripted with the carried month %s alone: whatever year the table was prepared for, once the walk has carried "
                             "into %s its February is the wrong one" % (lv(arr), lv(strip_casts(nn["i"])), "/".join(sorted(pairs[lv(strip_casts(nn["i"]))]))))
    if n < 4:
        rep.broken_("rule=R17.3 expected >=4 (year, month) helper calls on carry pairs, found %d" % n)


def r17_4(prog, rep):
    """Every BYEASTER offset is counted from Easter Sunday.  In the loop that iterates the offsets, a variable that receives `+= offset`
    must have been given its base value *inside* the loop on every path to that update; a base computed once before the loop
    accumulates the offsets (Easter - 2, then Easter - 2 + 1 instead of Easter + 1)."""
    rid = "R17.4"
    f = prog.fn("fill_yly_eastr", "evrrul.c")
    cfg = f.cfg
    loops = cfg.natural_loops()
    n = 0
    for h, blks in loops.items():
        itv = None
        for b in blks:
            for e in cfg.blocks[b].elems:
                if not isinstance(e["x"], dict):
                    continue
                for l, kind, nn in writes(e["x"]):
                    if nn.get("k") == "bin" and nn["op"] == "=":
                        r = strip_casts(cfg.resolve(nn["r"]))
                        if r.get("k") == "call" and (r.get("fn") or "").endswith("_next"):
                            itv = lv(l)
        if itv is None:
            continue
        for b in sorted(blks):
            for i, e in enumerate(cfg.blocks[b].elems):
                if not isinstance(e["x"], dict):
                    continue
                for l, kind, nn in writes(e["x"]):
                    if kind == "compound" and nn.get("op") in ("+=", "-=") and lv(strip_casts(cfg.resolve(nn["r"]))) == itv:
                        v = lv(l)
                        n += 1
                        reach_hdr = _reaches_header_without_def(cfg, blks, h, b, i, v)
                        key = "fill_yly_eastr/offset-from-fresh-base(%s)" % v
                        if reach_hdr:
                            rep.fail(rid, key, f.loc(nn.get("line", e.get("line"))), "`%s %s %s` is applied to a base that is not re-established inside the offset loop: "
                                     "the second BYEASTER offset is counted from the result of the first, not from Easter Sunday" % (v, nn["op"], itv))
                        else:
                            rep.ok(rid, key, f.loc(nn.get("line", e.get("line"))), "%s is set afresh in every iteration before `%s %s`" % (v, nn["op"], itv))
    if n < 1:
        rep.broken_("rule=R17.4 expected the offset update in fill_yly_eastr, found %d" % n)


def _reaches_header_without_def(cfg, blks, h, b, i, v):
    """Walking backwards from (b, i) inside the loop: is the loop header reached without meeting a plain definition of v?"""
    seen = set()
    work = [(b, i - 1)]
    while work:
        bb, ii = work.pop()
        blk = cfg.blocks[bb]
        cut = False
        j = ii
        while j >= 0:
            xx = blk.elems[j]["x"]
            if isinstance(xx, dict):
                for l2, k2, n2 in writes(xx):
                    if lv(l2) == v and ((k2 == "assign" and n2.get("k") == "bin" and n2["op"] == "=") or (k2 == "decl" and n2.get("init") is not None)):
                        cut = True
            if cut:
                break
            j -= 1
        if cut:
            continue
        if bb == h:
            return True
        for p_ in cfg.lpreds.get(bb, []):
            if p_ in blks and p_ not in seen:
                seen.add(p_)
                work.append((p_, len(cfg.blocks[p_].elems) - 1))
    return False


def r17_5(prog, rep, rid="R17.5"):
    """A shift that can move a date forward in time — a positive number of days, or a business-day part whose direction is forward (that
    includes `0B`: a weekend date goes to the Monday behind it) — can bring a date of the period *before* DTSTART's into range.  The yearly
    and the monthly filler therefore start one period early for such shifts.  The look-back code in front of each expansion loop is
    walked with the packed SHIFT fixed to every (days, business days, direction, zero-form) class: whenever the shift can move
    forward, the cursor must stand earlier at the loop than it did before."""
    from ..absw import AbsWalk, eval_in
    from ..rules.fillers import _is_main_loop

    def enc(d, b, inv, neg):
        return ((d & 0xffff) << 16) | ((b & 0x3fff) << 2) | (inv << 1) | neg

    def sx(v):
        v &= 0xffffffff
        return v - (1 << 32) if v & 0x80000000 else v
    CLASSES = [("SHIFT=3", enc(3, 0, 0, 0), True), ("SHIFT=-3", enc(-3, 0, 0, 0), False), ("SHIFT=2B", enc(0, 2, 0, 0), True),
               ("SHIFT=-2B", enc(0, 2, 0, 1), False), ("SHIFT=0B", enc(0, 0, 1, 0), True), ("SHIFT=-0B", enc(0, 0, 1, 1), False),
               ("SHIFT=2B+", enc(0, 2, 1, 0), True), ("SHIFT=2B-", enc(0, 2, 1, 1), False), ("SHIFT=-1,0B", enc(-1, 0, 1, 0), True),
               ("no SHIFT", 0, False)]
    n = 0
    for fname, cur in (("rrul_fill_yly", ("y",)), ("rrul_fill_mly", ("y", "m"))):
        f = prog.fn(fname, "evrrul.c")
        cfg = f.cfg
        rr = f.params[2]["n"]
        mains = [(h, b) for h, b in cfg.natural_loops().items() if _is_main_loop(f, h)]
        if not mains:
            raise AnalysisBroken("R17.5: %s has no expansion loop" % fname)
        mh, mblks = max(mains, key=lambda t_: len(t_[1]))
        # the look-back region: blocks outside the main loop that ask about the shift
        SH = ("echs_shift_dvalue", "echs_shift_bvalue", "echs_shift_bday_p", "echs_shift_neg_p", "echs_shift_inv_p", "echs_shift_absval")
        reg = [b for b in cfg.blocks if b not in mblks and any(
            isinstance(e["x"], dict) and any(c.get("fn") in SH for c in calls(e["x"])) for e in cfg.blocks[b].elems)]
        n += 1
        key = "%s/looks-back-for-forward-shifts" % fname
        if not reg:
            rep.fail(rid, key, f.loc(), "%s does not look at the SHIFT in front of its expansion loop: a date moved forward into DTSTART's period "
                     "from the one before is never produced" % fname)
            continue
        start = max(reg)    # clang numbers blocks backwards: the highest id comes first

        def call_eval(c, store):
            nm = c.get("fn")
            if nm in ("bui31_has_bits_p", "bui63_has_bits_p"):
                return 0        # a rule without BYMONTH: the month is not moved on to a listed one
            if nm not in SH:
                return None
            sh = eval_in(store, cfg.resolve(c["a"][0]), f)
            if sh is None:
                return None
            sh = sx(sh)
            low = sh & 0xffff
            return {"echs_shift_dvalue": sh >> 16, "echs_shift_bday_p": int(bool(low)), "echs_shift_neg_p": sh & 1, "echs_shift_inv_p": (sh >> 1) & 1,
                    "echs_shift_bvalue": (low >> 2) if not (sh & 1) else -(low >> 2), "echs_shift_absval": low >> 2}[nm]
        # the cursor: the locals that start out as the year and the month of the rule's start (whatever they are called)
        names = {}
        for b, i, x, line in cfg.all_elems():
            for l, kind, nn in writes(x):
                if kind == "decl" and nn.get("init") is not None:
                    ini = strip_casts(cfg.resolve(nn["init"]))
                    if ini.get("k") == "mem" and ini.get("f") in ("y", "m") and "instant" in (strip_casts(ini["b"]).get("t") or "") + (ini.get("rec") or ""):
                        names.setdefault(ini["f"], lv(l))
        if any(c_ not in names for c_ in cur):
            raise AnalysisBroken("R17.5: %s: the year/month cursor was not found (%s)" % (fname, names))
        missed = []
        for label, sh, fwd in CLASSES:
            init = {"%s->shift" % rr: sx(sh), names.get("y", "y"): 2023, names.get("m", "m"): 1}
            outs = []
            w = AbsWalk(f, {l_["n"] for l_ in f.locals}, init=init, call_eval=call_eval, max_states=20000)
            w.run(start_block=start, stop_at={mh}, on_exit=lambda st_: outs.append(tuple(st_.get(names[c_]) for c_ in cur)))
            if not outs or len(set(outs)) != 1 or None in outs[0]:
                raise AnalysisBroken("R17.5: %s with %s: no single cursor at the expansion loop (%s)" % (fname, label, outs[:3]))
            back = outs[0] < tuple({"y": 2023, "m": 1}[c_] for c_ in cur)
            if fwd and not back:
                missed.append(label)
        if missed:
            rep.fail(rid, key, f.loc(cfg.blocks[start].elems[0].get("line") if cfg.blocks[start].elems else None),
                     "%s does not start a period early for %s although that shift can move a date forward: a date of the period before DTSTART's that "
                     "the shift carries across the boundary (Saturday Dec 31 -> Monday Jan 2) is missing, and COUNT hands out one more at the far end"
                     % (fname, ", ".join(missed)))
        else:
            rep.ok(rid, key, f.loc(), "starts a period early for every class of shift that can move forward (%d classes)" % len(CLASSES))
    if n < 2:
        rep.broken_("rule=%s expected the yearly and the monthly filler" % rid)


def r17_6(prog, rep, rid="R17.6"):
    """Gregorian Easter Sunday of every year 1901..2099: easter_get_yday() is walked with the year fixed — its arithmetic done in the
    unsigned types of its expressions — and compared with the anonymous Gregorian computus (Meeus/Jones/Butcher), day of the year by
    day of the year.  199 years; the two exceptions of the epact correction (1954, 1981, 2049, 2076) are among them."""
    import datetime
    from ..absw import AbsWalk, eval_in
    f = prog.fn("easter_get_yday", "evrrul.c")
    cfg = f.cfg
    yp = f.params[0]["n"]

    def computus(y):
        a = y % 19
        b, c = divmod(y, 100)
        d, e = divmod(b, 4)
        g = (8 * b + 13) // 25
        h = (19 * a + b - d - g + 15) % 30
        i, k = divmod(c, 4)
        l_ = (32 + 2 * e + 2 * i - h - k) % 7
        m = (a + 11 * h + 19 * l_) // 433
        mon = (h + l_ - 7 * m + 90) // 25
        day = (h + l_ - 7 * m + 33 * mon + 19) % 32
        return datetime.date(y, mon, day).timetuple().tm_yday
    bad = []
    for y in range(1901, 2100):
        outs = []

        def effect(b, i, x, store, outs=outs):
            if isinstance(x, dict) and x.get("k") == "ret" and x.get("e") is not None:
                outs.append(eval_in(store, cfg.resolve(x["e"]), f))
            return None
        AbsWalk(f, {l_["n"] for l_ in f.locals}, init={yp: y}, effect=effect, max_states=2000).run()
        if len(set(outs)) != 1 or outs[0] is None:
            raise AnalysisBroken("easter_get_yday(%d): no single result (%s)" % (y, outs[:2]))
        want = computus(y)
        if outs[0] != want:
            bad.append((y, outs[0], want))
    key = "easter_get_yday/agrees-with-the-computus"
    if bad:
        rep.fail(rid, key, f.loc(), "Easter Sunday comes out wrong for %d of 199 years, e.g. %s: every BYEASTER offset of such a year is off by as much" % (
            len(bad), "; ".join("%d: day %s of the year instead of %d" % b_ for b_ in bad[:4])), {"years": [list(b_) for b_ in bad[:40]]})
    else:
        rep.ok(rid, key, f.loc(), "Easter Sunday of all 199 years 1901..2099 is the computus' day of the year")


def r17_7(prog, rep, rid="R17.7"):
    """shift() moves the day of a candidate (by the shift, by the snap of a weekend to Monday or Friday) and then carries what runs over
    the ends of the month into the neighbouring month and year.  A (month, day) pair is packed into a result set only where the day is
    known to lie in its month: `0 < day` and `day <= ndom(year, month)` hold on every path to the packing — a path that packs
    without the carry (a short-cut for `0B`) produces dates like 2019-06-31 and 2022-13-01 for a weekend at the end of a month."""
    f = prog.fn("shift", "evrrul.c")
    cfg = f.cfg
    mf = MustFacts(cfg)
    n = 0
    for b, i, x, line in cfg.all_elems():
        if not isinstance(x, dict):
            continue
        for c in calls(x):
            if c.get("fn") != "pack_cand" or len(c.get("a", ())) < 2:
                continue
            n += 1
            d = lv(strip_casts(cfg.resolve(c["a"][1])))
            facts = mf.at(b, i) or set()
            lo = any(fa[0] in ("lt", "le") and fa[2] == d and fa[1].isdigit() and int(fa[1]) + (1 if fa[0] == "lt" else 0) >= 1 for fa in facts)
            hi = any(fa[0] in ("lt", "le") and fa[1] == d and ("ndom" in fa[2] or "ndim" in fa[2] or "mdays" in fa[2]) for fa in facts)
            key = "shift/day-in-its-month-where-it-is-packed#%d" % n
            if lo and hi:
                rep.ok(rid, key, f.loc(c.get("line", line)), "`0 < %s <= month length` holds on every path to the packing" % d)
            else:
                rep.fail(rid, key, f.loc(c.get("line", line)), "pack_cand(.., %s) is reached on a path on which %s has not been brought into its month (%s): "
                         "a moved day that runs over the end of the month is packed as it is — `SHIFT=0B` on Sunday 2019-06-30 gives 2019-06-31, "
                         "on Saturday 2022-12-31 month 13" % (d, d, "no lower bound" if not lo else "no upper bound against the month length"))
    if n < 2:
        rep.broken_("rule=%s expected the two packing sites of shift(), found %d" % (rid, n))


def run(prog, rep, tier, snap):
    rep.rule("R17.1", "SHIFT bit layout: writer and all readers agree", 10)
    rep.call(r17_1, prog, rep)
    rep.rule("R17.2", "pipeline order and BYEASTER guard", 8)
    rep.call(r17_2, prog, rep)
    rep.rule("R17.3", "calendar helpers are asked about the carried (year, month) pair", 4)
    rep.call(r17_3, prog, rep)
    rep.rule("R17.4", "every BYEASTER offset is applied to a base set afresh in the loop", 1)
    rep.call(r17_4, prog, rep)
    rep.rule("R17.5", "the yearly and monthly fillers start a period early for every shift that can move a date forward (value-fixed walk)", 2)
    rep.call(r17_5, prog, rep)
    rep.rule("R17.7", "shift() packs a moved day only when it is known to lie in its month", 2)
    rep.call(r17_7, prog, rep)
    rep.rule("R17.6", "Easter Sunday of every year 1901..2099 (value-fixed walk of the computus)", 1)
    rep.call(r17_6, prog, rep)
READY = True

# texts brought up to date with the rules added in the last rounds
LEVEL_TEXT = LEVEL_TEXT + ' Added later: the yearly and monthly fillers start a period early for every class of shift that can move forward (walk over ten SHIFT classes); Easter Sunday of every year 1901..2099 against the Gregorian computus (walk); shift() packs a moved day only where it is known to lie in its month.'
TECHNIQUE = (TECHNIQUE if isinstance(TECHNIQUE, str) else TECHNIQUE) + '; value-fixed walks of the look-back code and of the Easter computus; must-facts on the day carry'

