"""C20 — instant and event sorting is a stable ordering permutation (narrow structural clauses)."""
import os

from ..facts import walk, strip, strip_casts, lv, show, writes, calls, int_value, Function
from ..snapshot import AnalysisBroken
from . import c08

UNITS = None
EXPLANATION = (
    "R20.1: the comparator is a strict order applied symmetrically: echs_instant_lt_p applies the same normalisation (field increments) to "
    "both operands and compares x.u < y.u with a strict `<`, left operand first; echs_instant_le_p mirrors it; echs_event_lt_p compares "
    ".from through it in argument order. Template bindings: in instant.c the sort template is instantiated with (echs_instant_t, "
    "echs_instant_lt_p), in event.c with (echs_event_t, echs_event_lt_p), and every comparison inside the template goes through that "
    "binding; echs_instant_sort/echs_event_sort pass (array, count) through. R08.3 (sentinels wrap to 0 so all-day sorts before timed).")
NOT_DECIDED = "WikiSort itself: that the result is a permutation, sorted, and stable on every block-merge path (value-level over arrays of every length)"
TRUSTED = ["clang 14 parser/CFG builder", "echse-facts extractor", "python rule engines in /verif/sa"]
LEVEL_TEXT = ("Static verdict on narrow necessary clauses of C20 only: the comparison the sort is instantiated with is a strict, symmetric "
              "order on the chronological key with the all-day-first wrap, and both instantiations bind the right element type and comparator. "
              "The sorting algorithm itself (permutation, order, stability) is NOT decided.")
LEVEL_NOTE = "Trusted: clang 14 front end/CFG, extractor, rule engines."
TECHNIQUE = "static analysis: symmetry/strictness of the comparator's expression tree, template binding agreement per translation unit"


def _incs(f, param):
    out = []
    for b, i, x, line in f.cfg.all_elems():
        for l, kind, n in writes(f.cfg.resolve(x)):
            t = lv(l)
            if t.startswith(param + ".") and kind == "incdec":
                out.append((t.split(".", 1)[1], n["op"]))
    return sorted(out)


def r20_1(prog, rep):
    rid = "R20.1"
    for name, op in (("echs_instant_lt_p", "<"), ("echs_instant_le_p", "<=")):
        f = prog.fn(name, "instant.h")
        p0, p1 = f.params[0]["n"], f.params[1]["n"]
        i0, i1 = _incs(f, p0), _incs(f, p1)
        key = "%s/symmetric-normalisation" % name
        if i0 == i1 and {x[0] for x in i0} == {"H", "ms"}:
            rep.ok(rid, key, f.loc(), "both operands get %s" % i0)
        else:
            rep.fail(rid, key, f.loc(), "operands are normalised differently (%s vs %s): the order is not symmetric; all-day/all-second sentinels compare wrongly" % (i0, i1))
        ret = [f.cfg.resolve(x["e"]) for b, i, x, line in f.cfg.all_elems() if isinstance(x, dict) and x.get("k") == "ret"]
        if len(ret) != 1:
            raise AnalysisBroken("%s has %d returns" % (name, len(ret)))
        c = strip(ret[0])
        neg = False
        while c.get("k") == "un" and c["op"] == "!":
            neg = not neg
            c = strip(c["e"])
        key = "%s/strict-compare" % name
        if c.get("k") == "bin" and c["op"] in ("<", ">", "<=", ">="):
            l, r, o = lv(c["l"]), lv(c["r"]), c["op"]
            # normalise to  p0.u OP p1.u
            if l == p1 + ".u" and r == p0 + ".u":
                o = {"<": ">", ">": "<", "<=": ">=", ">=": "<="}[o]
                l, r = r, l
            if neg:
                o = {"<": ">=", ">": "<=", "<=": ">", ">=": "<"}[o]
            if l == p0 + ".u" and r == p1 + ".u" and o == op:
                rep.ok(rid, key, f.loc(), "returns %s.u %s %s.u" % (p0, op, p1))
            else:
                rep.fail(rid, key, f.loc(), "%s computes `%s %s %s`, expected %s.u %s %s.u%s" % (
                    name, l, o, r, p0, op, p1, " (a non-strict sort comparator breaks stability)" if op == "<" else ""))
        else:
            rep.fail(rid, key, f.loc(), "%s does not return a comparison of the .u views: %s" % (name, show(ret[0])))
    e = prog.fn("echs_event_lt_p", "event.h")
    ret = [e.cfg.resolve(x["e"]) for b, i, x, line in e.cfg.all_elems() if isinstance(x, dict) and x.get("k") == "ret"][0]
    c = strip(ret)
    if c.get("k") == "call" and c.get("fn") == "echs_instant_lt_p" and [lv(a) for a in c["a"]] == [e.params[0]["n"] + ".from", e.params[1]["n"] + ".from"]:
        rep.ok(rid, "echs_event_lt_p/by-from", e.loc(), "events are ordered by .from through echs_instant_lt_p, in argument order")
    else:
        rep.fail(rid, "echs_event_lt_p/by-from", e.loc(), "echs_event_lt_p is %s, expected echs_instant_lt_p(e1.from, e2.from)" % show(ret))


def r20_2(prog, rep):
    """Template bindings per translation unit."""
    rid = "R20.2"
    want = {"instant.c": ("echs_instant_t", "echs_instant_lt_p", "echs_instant_sort"), "event.c": ("echs_event_t", "echs_event_lt_p", "echs_event_sort")}
    for unit, (ty, cmp_, api) in want.items():
        doc = prog.units.get(unit)
        if doc is None:
            raise AnalysisBroken("unit %s not extracted" % unit)
        macros = {m["name"]: m["text"] for m in doc["macros"] if m["file"] == unit}
        key = "%s/binding" % unit
        if macros.get("T") == ty and macros.get("compare") == cmp_:
            rep.ok(rid, key, "src/" + unit, "T = %s, compare = %s before the template is included" % (ty, cmp_))
        else:
            rep.fail(rid, key, "src/" + unit, "template bound to T=%s compare=%s, expected %s/%s" % (macros.get("T"), macros.get("compare"), ty, cmp_))
        # every comparison inside the template functions of this unit goes through the bound comparator
        ncmp = 0
        other = set()
        for fr in doc["functions"]:
            if fr["file"] != "wikisort.c" or not fr.get("cfg"):
                continue
            f = Function(fr, unit)
            for b, i, c, line in f.all_calls():
                fn = c.get("fn") or ""
                if fn.endswith("_lt_p") or fn.endswith("_le_p") or fn.endswith("_eq_p"):
                    if fn == cmp_:
                        ncmp += 1
                    else:
                        other.add(fn)
        key = "%s/template-comparisons" % unit
        if ncmp >= 10 and not other:
            rep.ok(rid, key, "src/wikisort.c", "%d comparison sites in the template all call %s" % (ncmp, cmp_))
        else:
            rep.fail(rid, key, "src/wikisort.c", "template instance in %s: %d sites call %s, others call %s" % (unit, ncmp, cmp_, sorted(other)))
        # the public entry passes (array, count) through
        f = prog.fn(api, unit)
        cs = [c for b, i, c, line in f.all_calls() if c.get("fn") == "WikiSort"]
        args = [lv(f.cfg.resolve(a)) for a in cs[0]["a"]] if cs else None
        if args == [f.params[0]["n"], f.params[1]["n"]]:
            rep.ok(rid, "%s/%s" % (unit, api), f.loc(), "%s(%s) sorts the whole array" % (api, ", ".join(args)))
        else:
            rep.fail(rid, "%s/%s" % (unit, api), f.loc(), "%s calls WikiSort with %s" % (api, args))


def run(prog, rep, tier, snap):
    rep.rule("R20.1", "comparator is a strict order applied symmetrically", 5)
    r20_1(prog, rep)
    rep.rule("R20.2", "template bindings and entry points", 6)
    r20_2(prog, rep)
    rep.rule("R08.3", "sentinels wrap to zero: all-day sorts before timed (shared with C08)", 4)
    c08.r08_3(prog, rep)
READY = True
