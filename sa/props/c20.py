"""C20 — instant and event sorting is a stable ordering permutation (narrow structural clauses)."""
import os

from ..facts import walk, strip, strip_casts, lv, show, writes, calls, int_value, Function
from ..snapshot import AnalysisBroken
from ..flow import cond_atoms
from ..q import chain_elems
from . import c08

UNITS = None
EXPLANATION = (
    "R20.1: the comparator is a strict order applied symmetrically: echs_instant_lt_p applies the same normalisation (field increments) to "
    "both operands and compares x.u < y.u with a strict `<`, left operand first; echs_instant_le_p mirrors it; echs_event_lt_p compares "
    ".from through it in argument order. Template bindings: in instant.c the sort template is instantiated with (echs_instant_t, "
    "echs_instant_lt_p), in event.c with (echs_event_t, echs_event_lt_p), and every comparison inside the template goes through that "
    "binding; echs_instant_sort/echs_event_sort pass (array, count) through. R20.3: every binary search of the template has the polarity "
    "(First = in front of equals, Last = behind) that stability and progress need, per function and search family, in both instantiations. "
    "R20.4: a block_size-long BlockSwap/memcpy out of the rolling A blocks is reached only with Range_length(blockA) > 0 on every path "
    "(one-fact must-analysis; shifting start and end by the same amount keeps the fact). R08.3 (sentinels wrap to 0 so all-day sorts before timed).")
NOT_DECIDED = ("WikiSort itself: that the result is a permutation, sorted, and stable on every block-merge path (value-level over arrays of "
               "every length); only search polarity and the whole-block guard are decided inside the algorithm")
TRUSTED = ["clang 14 parser/CFG builder", "echse-facts extractor", "python rule engines in /verif/sa"]
LEVEL_TEXT = ("Static verdict on narrow necessary clauses of C20 only: the comparison the sort is instantiated with is a strict, symmetric "
              "order on the chronological key with the all-day-first wrap, and both instantiations bind the right element type and comparator. "
              "The sorting algorithm itself (permutation, order, stability) is NOT decided.")
LEVEL_NOTE = "Trusted: clang 14 front end/CFG, extractor, rule engines."
TECHNIQUE = ("static analysis: symmetry/strictness of the comparator's expression tree, template binding agreement per translation unit, "
             "search-polarity table per template function, one-fact must-analysis guarding whole-block accesses")


def _incs(f, param):
    out = []
    for b, i, x, line in f.cfg.all_elems():
        for l, kind, n in writes(f.cfg.resolve(x)):
            t = lv(l)
            if t.startswith(param + ".") and kind == "incdec":
                out.append((t.split(".", 1)[1], n["op"]))
    return sorted(out)


def r20_1(prog, rep):
    rid = "R20.1"
    for name, op in (("echs_instant_lt_p", "<"), ("echs_instant_le_p", "<=")):
        f = prog.fn(name, "instant.h")
        p0, p1 = f.params[0]["n"], f.params[1]["n"]
        i0, i1 = _incs(f, p0), _incs(f, p1)
        # the normalisation delegated to a helper that is handed each operand by value and answers the packed word of its wrapped copy
        # (`kx = ordkey(x); ky = ordkey(y); return kx < ky;`): the helper's increments count for the operand, its answer for `.u`
        keyof = {}
        for b_, i_, x_, line_ in f.cfg.all_elems():
            if not isinstance(x_, dict):
                continue
            for l_, kind_, n_ in writes(x_):
                rhs_ = n_.get("init") if kind_ == "decl" else (n_.get("r") if n_.get("k") == "bin" and n_["op"] == "=" else None)
                r_ = strip(f.cfg.resolve(rhs_)) if rhs_ is not None else {}
                if r_.get("k") == "call" and r_.get("fn") and len(r_.get("a", [])) == 1 and prog.has_fn(r_["fn"], f.file) and lv(strip(f.cfg.resolve(r_["a"][0]))) in (p0, p1):
                    g_ = prog.fn(r_["fn"], f.file)
                    gp_ = g_.params[0]["n"] if g_.cfg and len(g_.params) == 1 else None
                    grets_ = [g_.cfg.resolve(q_["e"]) for _b, _i, q_, _l in g_.cfg.all_elems() if isinstance(q_, dict) and q_.get("k") == "ret" and q_.get("e") is not None] if gp_ else []
                    gw_ = sorted((lv(w_[0]), w_[1]) for _b, _i, q_, _l in g_.cfg.all_elems() for w_ in writes(g_.cfg.resolve(q_))) if gp_ else []
                    plus1 = lambda w: w[1] == "incdec" or w[1] == "compound"
                    if gp_ and len(grets_) == 1 and lv(strip(grets_[0])) == gp_ + ".u" and all(t_.startswith(gp_ + ".") and plus1((t_, k_)) for t_, k_ in gw_):
                        ginc = _incs(g_, gp_) or sorted((t_.split(".", 1)[1], "+=1") for t_, k_ in gw_ if all(
                            int_value(strip_casts(w_[2]["r"])) == 1 for _b, _i, q_, _l in g_.cfg.all_elems() for w_ in writes(g_.cfg.resolve(q_)) if w_[1] == "compound"))
                        keyof[lv(l_)] = (lv(strip(f.cfg.resolve(r_["a"][0]))), [(x__[0], "++") for x__ in ginc])
        if not i0 and not i1 and sorted(v_[0] for v_ in keyof.values()) == sorted([p0, p1]):
            i0 = sorted(next(v_[1] for v_ in keyof.values() if v_[0] == p0))
            i1 = sorted(next(v_[1] for v_ in keyof.values() if v_[0] == p1))
        elif sorted(v_[0] for v_ in keyof.values()) != sorted([p0, p1]):
            keyof = {}
        key = "%s/symmetric-normalisation" % name
        if i0 == i1 and {x[0] for x in i0} == {"H", "ms"}:
            rep.ok(rid, key, f.loc(), "both operands get %s" % i0)
        else:
            if i0 != i1:
                why = "operands are normalised differently (%s vs %s): the order is not symmetric" % (sorted(set(i0)), sorted(set(i1)))
            else:
                why = ("the wrap-around increments cover %s, not {H, ms}: the all-day/all-second sentinels (all bits set) are not wrapped to the front "
                       "of their day/second while every real value moves up by one, so they share a slot with or sort behind timed values" % (sorted({x[0] for x in i0}),))
            rep.fail(rid, key, f.loc(), why + "; all-day/all-second sentinels compare wrongly")
        ret = [f.cfg.resolve(x["e"]) for b, i, x, line in f.cfg.all_elems() if isinstance(x, dict) and x.get("k") == "ret"]
        if len(ret) != 1:
            raise AnalysisBroken("%s has %d returns" % (name, len(ret)))
        c = strip(ret[0])
        neg = False
        while c.get("k") == "un" and c["op"] == "!":
            neg = not neg
            c = strip(c["e"])
        key = "%s/strict-compare" % name
        if c.get("k") == "bin" and c["op"] in ("<", ">", "<=", ">="):
            l, r, o = lv(c["l"]), lv(c["r"]), c["op"]
            l, r = (keyof[l][0] + ".u" if l in keyof else l), (keyof[r][0] + ".u" if r in keyof else r)
            # a local with one definition stands for what it was defined from (`kx = <helper's answer> = x.u`, helper analysed inline)
            defs_ = {}
            for b_, i_, x_, line_ in f.cfg.all_elems():
                if isinstance(x_, dict):
                    for l_, kind_, n_ in writes(x_):
                        rhs_ = n_.get("init") if kind_ == "decl" else (n_.get("r") if n_.get("k") == "bin" and n_["op"] == "=" else None)
                        r_ = strip_casts(f.cfg.resolve(rhs_)) if rhs_ is not None else {}
                        defs_.setdefault(lv(l_), set()).add(lv(r_) if r_.get("k") in ("ref", "mem") else None)
            for _ in range(3):
                l = next(iter(defs_[l])) if len(defs_.get(l, ())) == 1 and None not in defs_[l] and "." not in l else l
                r = next(iter(defs_[r])) if len(defs_.get(r, ())) == 1 and None not in defs_[r] and "." not in r else r
            # normalise to  p0.u OP p1.u
            if l == p1 + ".u" and r == p0 + ".u":
                o = {"<": ">", ">": "<", "<=": ">=", ">=": "<="}[o]
                l, r = r, l
            if neg:
                o = {"<": ">=", ">": "<=", "<=": ">", ">=": "<"}[o]
            if l == p0 + ".u" and r == p1 + ".u" and o == op:
                rep.ok(rid, key, f.loc(), "returns %s.u %s %s.u" % (p0, op, p1))
            else:
                rep.fail(rid, key, f.loc(), "%s computes `%s %s %s`, expected %s.u %s %s.u%s" % (
                    name, l, o, r, p0, op, p1, " (a non-strict sort comparator breaks stability)" if op == "<" else ""))
        else:
            rep.fail(rid, key, f.loc(), "%s does not return a comparison of the .u views: %s" % (name, show(ret[0])))
    e = prog.fn("echs_event_lt_p", "event.h")
    ret = [e.cfg.resolve(x["e"]) for b, i, x, line in e.cfg.all_elems() if isinstance(x, dict) and x.get("k") == "ret"][0]
    c = strip(ret)
    if c.get("k") == "call" and c.get("fn") == "echs_instant_lt_p" and [lv(a) for a in c["a"]] == [e.params[0]["n"] + ".from", e.params[1]["n"] + ".from"]:
        rep.ok(rid, "echs_event_lt_p/by-from", e.loc(), "events are ordered by .from through echs_instant_lt_p, in argument order")
    elif (lambda wc: wc is not None and wc[0] == "<" and [lv(strip_casts(wc[1])), lv(strip_casts(wc[2]))] == [
            e.params[0]["n"] + ".from", e.params[1]["n"] + ".from"])(__import__("sa.order", fromlist=["wrapped_compare"]).wrapped_compare(e)):
        rep.ok(rid, "echs_event_lt_p/by-from", e.loc(), "events are ordered by .from with the instant comparison written out (both copies wrapped, `<` on the packed words)")
    else:
        rep.fail(rid, "echs_event_lt_p/by-from", e.loc(), "echs_event_lt_p is %s, expected echs_instant_lt_p(e1.from, e2.from)" % show(ret))


def r20_2(prog, rep):
    """Template bindings per translation unit."""
    rid = "R20.2"
    want = {"instant.c": ("echs_instant_t", "echs_instant_lt_p", "echs_instant_sort"), "event.c": ("echs_event_t", "echs_event_lt_p", "echs_event_sort")}
    for unit, (ty, cmp_, api) in want.items():
        doc = prog.units.get(unit)
        if doc is None:
            raise AnalysisBroken("unit %s not extracted" % unit)
        macros = {m["name"]: m["text"] for m in doc["macros"] if m["file"] == unit}
        key = "%s/binding" % unit
        if macros.get("T") == ty and macros.get("compare") == cmp_:
            rep.ok(rid, key, "src/" + unit, "T = %s, compare = %s before the template is included" % (ty, cmp_))
        else:
            rep.fail(rid, key, "src/" + unit, "template bound to T=%s compare=%s, expected %s/%s" % (macros.get("T"), macros.get("compare"), ty, cmp_))
        # every comparison inside the template functions of this unit goes through the bound comparator
        ncmp = 0
        other = set()
        for fr in doc["functions"]:
            if fr["file"] != "wikisort.c" or not fr.get("cfg"):
                continue
            f = Function(fr, unit)
            for b, i, c, line in f.all_calls():
                fn = c.get("fn") or ""
                if fn.endswith("_lt_p") or fn.endswith("_le_p") or fn.endswith("_eq_p"):
                    if fn == cmp_:
                        ncmp += 1
                    else:
                        other.add(fn)
        key = "%s/template-comparisons" % unit
        if ncmp >= 10 and not other:
            rep.ok(rid, key, "src/wikisort.c", "%d comparison sites in the template all call %s" % (ncmp, cmp_))
        else:
            rep.fail(rid, key, "src/wikisort.c", "template instance in %s: %d sites call %s, others call %s" % (unit, ncmp, cmp_, sorted(other)))
        # the public entry passes (array, count) through
        f = prog.fn(api, unit)
        cs = [c for b, i, c, line in f.all_calls() if c.get("fn") == "WikiSort"]
        args = [lv(f.cfg.resolve(a)) for a in cs[0]["a"]] if cs else None
        if args == [f.params[0]["n"], f.params[1]["n"]]:
            rep.ok(rid, "%s/%s" % (unit, api), f.loc(), "%s(%s) sorts the whole array" % (api, ", ".join(args)))
        else:
            rep.fail(rid, "%s/%s" % (unit, api), f.loc(), "%s calls WikiSort with %s" % (api, args))


def _template_fns(prog, unit):
    doc = prog.units.get(unit)
    if doc is None:
        raise AnalysisBroken("unit %s not extracted" % unit)
    return {fr["name"]: Function(fr, unit) for fr in doc["functions"] if fr["file"] == "wikisort.c" and fr.get("cfg")}


# polarity of the binary searches, confirmed by reading (First = before equal elements, Last = behind them):
#   wrappers     Find<P><Dir> narrows a window and must finish with Binary<P>
#   insertion    an element coming from the left of a range goes in front of its equals (First), from the right behind them (Last):
#                InsertionSortBinary (from the right: Last), MergeInPlace A-head into B (First), WikiSort min A block into lastB (First),
#                redistribution of the internal buffers (to the right: FindFirstForward, to the left: FindLastBackward)
#   run skipping MergeInPlace skips A's leading run with Last (First makes no progress: endless loop); the unique-value counts and pull-outs
#                in WikiSort take the last of a run going forward and the first going backward
POLARITY = {
    "FindFirstForward": {"Binary": {"First": 1}},
    "FindLastForward": {"Binary": {"Last": 1}},
    "FindFirstBackward": {"Binary": {"First": 1}},
    "FindLastBackward": {"Binary": {"Last": 1}},
    "InsertionSortBinary": {"Binary": {"Last": 1}},
    "MergeInPlace": {"Binary": {"First": 1, "Last": 1}},
    "WikiSort": {"Binary": {"First": 1}, "Forward": {"Last": 2, "First": 1}, "Backward": {"First": 2, "Last": 1}},
}


def _search_call(fn):
    import re
    m = re.fullmatch(r"Binary(First|Last)", fn or "")
    if m:
        return "Binary", m.group(1)
    m = re.fullmatch(r"Find(First|Last)(Forward|Backward)", fn or "")
    if m:
        return m.group(2), m.group(1)
    return None


def r20_3(prog, rep):
    """Stability polarity of every binary search in the sort template (both instantiations)."""
    rid = "R20.3"
    for unit in ("instant.c", "event.c"):
        fns = _template_fns(prog, unit)
        for name, want in POLARITY.items():
            f = fns.get(name)
            if f is None:
                rep.broken_("rule=%s %s: template function %s not found" % (rid, unit, name))
                continue
            got = {}
            sites = []
            for b, i, c, line in f.all_calls():
                sc = _search_call(c.get("fn"))
                if sc:
                    got.setdefault(sc[0], {}).setdefault(sc[1], 0)
                    got[sc[0]][sc[1]] += 1
                    sites.append((line, c))
            for fam in sorted(set(want) | set(got)):
                key = "%s/%s/%s" % (unit, name, fam)
                w, g = want.get(fam, {}), got.get(fam, {})
                if sum(w.values()) != sum(g.values()):
                    # a search was added or removed: the table below no longer describes this function
                    rep.broken_("rule=%s %s: %d %s searches where %d were confirmed by reading; re-confirm the polarity table" % (
                        rid, key, sum(g.values()), fam, sum(w.values())))
                elif w == g:
                    rep.ok(rid, key, f.loc(), "%s searches: %s as confirmed" % (fam, ", ".join("%d x %s" % (v, k) for k, v in sorted(g.items()))))
                else:
                    rep.fail(rid, key, f.loc(), "the %s searches of %s are %s, confirmed stable polarity is %s: an element is placed on the wrong side of its "
                             "equals (equal elements change their relative order) or a run is skipped from the wrong end" % (
                                 fam, name, dict(sorted(g.items())), dict(sorted(w.items()))))
        # MergeInPlace: A's head is searched in the other range with First (stable: A comes from the left), in A itself with Last
        f = fns.get("MergeInPlace")
        if f is not None:
            pa, pb = f.params[1]["n"], f.params[2]["n"]
            for b, i, c, line in f.all_calls():
                sc = _search_call(c.get("fn"))
                if not sc or sc[0] != "Binary":
                    continue
                val, rng = show(f.cfg.resolve(c["a"][1])), lv(f.cfg.resolve(c["a"][2]))
                key = "%s/MergeInPlace/search(%s in %s)" % (unit, val, rng)
                if val != "array[%s.start]" % pa or rng not in (pa, pb):
                    rep.broken_("rule=%s %s: unrecognised search" % (rid, key))
                    continue
                need = "First" if rng == pb else "Last"
                if sc[1] == need:
                    rep.ok(rid, key, f.loc(line), "Binary%s" % need)
                else:
                    rep.fail(rid, key, f.loc(line), "Binary%s used where Binary%s is needed: %s" % (sc[1], need,
                             "A's items are rotated behind the equal items of B, equal elements swap their relative order" if need == "First"
                             else "A's leading run is not skipped, the merge makes no progress"))


# comparator polarity inside the template, confirmed by reading: (the loop continues / A is taken) on compare(x, y) being true|false,
# and where the searched value (resp. the B element) stands
CMP_POLARITY = {
    "FindFirstForward": ("true", 2),    # gallop while array[i] < value
    "FindLastForward": ("false", 1),    # gallop while !(value < array[i])
    "FindFirstBackward": ("false", 2),  # gallop while !(array[i] < value)
    "FindLastBackward": ("true", 1),    # gallop while value < array[i]
}


def r20_5(prog, rep):
    """Polarity of the raw comparisons that decide ties.  The gallop loops of the four Find* helpers must stop at the same side of a run
    of equal elements as the binary search they hand over to; the merges take the element of the LEFT run unless the right one is
    strictly smaller (`!compare(B, A)`), which is what keeps equal elements in their original order."""
    rid = "R20.5"
    for unit, cmp_ in (("instant.c", "echs_instant_lt_p"), ("event.c", "echs_event_lt_p")):
        fns = _template_fns(prog, unit)
        for name, (want_truth, want_pos) in CMP_POLARITY.items():
            f = fns.get(name)
            if f is None:
                rep.broken_("rule=%s %s: %s not found" % (rid, unit, name))
                continue
            cfg = f.cfg
            val = f.params[1]["n"]
            loops = cfg.natural_loops()
            got = []
            for h, blks in loops.items():
                for b in blks:
                    c = cfg.cond(b)
                    if c is None:
                        continue
                    for si, sb in enumerate(cfg.blocks[b].succs):
                        if sb is None or sb not in blks:
                            continue
                        for a in cond_atoms(c, si == 0):
                            if len(a) == 3 and isinstance(strip(a[2]), dict) and strip(a[2]).get("k") == "call" and strip(a[2]).get("fn") == cmp_:
                                args = [lv(strip_casts(x_)) for x_ in strip(a[2])["a"]]
                                got.append((a[0], 1 if args[0] == val else (2 if args[1] == val else 0)))
            key = "%s/%s/gallop" % (unit, name)
            if got == [(want_truth, want_pos)]:
                rep.ok(rid, key, f.loc(), "gallops on compare(%s) being %s" % ("value, array[i]" if want_pos == 1 else "array[i], value", want_truth))
            elif len(got) != 1:
                rep.broken_("rule=%s %s: %d comparator tests on the gallop loop where 1 was confirmed by reading" % (rid, key, len(got)))
            else:
                rep.fail(rid, key, f.loc(), "the gallop loop continues on compare(%s) being %s; with the binary search it hands over to it must be compare(%s) "
                         "being %s: inside a run of equal elements the search stops at the wrong end, the `unique` buffer picks duplicates and the merge loses "
                         "or duplicates elements" % ("value, array[i]" if got[0][1] == 1 else "array[i], value", got[0][0],
                                                     "value, array[i]" if want_pos == 1 else "array[i], value", want_truth))
        for name in ("MergeExternal", "MergeInternal"):
            f = fns.get(name)
            if f is None:
                rep.broken_("rule=%s %s: %s not found" % (rid, unit, name))
                continue
            cfg = f.cfg
            got = []
            for b in cfg.blocks:
                c = cfg.cond(b)
                if c is None:
                    continue
                for si, sb in enumerate(cfg.blocks[b].succs):
                    if sb is None:
                        continue
                    for a in cond_atoms(c, si == 0):
                        e_ = strip(a[2]) if len(a) == 3 else None
                        if isinstance(e_, dict) and e_.get("k") == "call" and e_.get("fn") == cmp_:
                            # which run does this edge take from?  the A side advances A_index / A_count in the successor
                            adv = set()
                            for bb, ii, ee in chain_elems(cfg, sb):
                                for l, kind, nn in writes(ee["x"]):
                                    if kind == "incdec":
                                        adv.add(lv(l))
                            side = "A" if any(v.startswith("A_") for v in adv) else ("B" if any(v.startswith("B_") for v in adv) else "?")
                            first = show(strip_casts(e_["a"][0]))
                            got.append((side, a[0], "B" if "B" in first else "A"))
            key = "%s/%s/tie-break" % (unit, name)
            takeA = [g for g in got if g[0] == "A"]
            if takeA == [("A", "false", "B")]:
                rep.ok(rid, key, f.loc(), "the element of the left run is taken unless compare(B, A): ties keep their order")
            elif len(takeA) != 1:
                rep.broken_("rule=%s %s: cannot identify the branch that takes from the left run (%s)" % (rid, key, got))
            else:
                rep.fail(rid, key, f.loc(), "the left run's element is taken when compare(%s first) is %s; stability needs `!compare(B, A)`: with %s equal "
                         "elements of the right run overtake those of the left run" % (takeA[0][2], takeA[0][1], "this test"))


def r20_6(prog, rep):
    """Typestate of the external cache in the block-rolling loop: a memcpy into the cache parks an A block there until the next merge consumes it.
    While a block may be parked (forward may-analysis over the CFG), Rotate() must not be given the cache as scratch space (cache_size 0)."""
    rid = "R20.6"
    for unit in ("instant.c", "event.c"):
        f = _template_fns(prog, unit).get("WikiSort")
        if f is None:
            rep.broken_("rule=%s %s: WikiSort not found" % (rid, unit))
            continue
        cfg = f.cfg

        def transfer(b, st, check=None):
            for i, e in enumerate(cfg.blocks[b].elems):
                x = e["x"]
                if not (isinstance(x, dict) and x.get("k") == "call"):
                    continue
                fn = x.get("fn")
                if fn == "memcpy" and show(strip_casts(cfg.resolve(x["a"][0]))).replace(" ", "") in ("&cache[0]", "cache", "(cache+0)"):
                    st = {"LIVE"}
                elif fn in ("MergeExternal", "MergeInternal", "MergeInPlace"):
                    st = {"DEAD"}
                elif fn == "Rotate" and check is not None:
                    check.append((b, i, x, set(st)))
            return st
        IN = {b: set() for b in cfg.blocks}
        IN[cfg.entry] = {"DEAD"}
        work = [cfg.entry]
        while work:
            b = work.pop()
            out = transfer(b, set(IN[b]))
            for s_ in cfg.blocks[b].live_succs():
                if not out <= IN[s_]:
                    IN[s_] |= out
                    work.append(s_)
        sites = []
        for b in cfg.blocks:
            if IN[b]:
                transfer(b, set(IN[b]), sites)
        n = 0
        for b, i, x, st in sites:
            n += 1
            last = const_eval_local(cfg.resolve(x["a"][-1]))
            key = "%s/WikiSort/Rotate@%d" % (unit, n)
            if "LIVE" in st and last != 0:
                rep.fail(rid, key, f.loc(x.get("line")),
                         "Rotate() is given the cache as scratch space (%s) at a point where the cache may still hold the A block parked there by memcpy: "
                         "the parked block is overwritten, the next merge duplicates some elements and loses others" % show(x["a"][-1]))
            else:
                rep.ok(rid, key, f.loc(x.get("line")), "cache %s" % ("disabled (0) while a block may be parked" if "LIVE" in st else "free: no block parked on any path"))
        if n < 4:
            rep.broken_("rule=%s %s: %d Rotate calls in WikiSort, >= 4 confirmed by reading" % (rid, unit, n))


def const_eval_local(x):
    x = strip_casts(x)
    return int_value(x)


def r20_4(prog, rep):
    """A whole block is swapped/copied out of the rolling A blocks only while there is one: every block_size-long access that starts at
    R.start (R a Range local) is reached only with Range_length(R) > 0 established and not invalidated (shifting start and end by the
    same amount keeps it)."""
    rid = "R20.4"
    for unit in ("instant.c", "event.c"):
        f = _template_fns(prog, unit).get("WikiSort")
        if f is None:
            rep.broken_("rule=%s %s: WikiSort not found" % (rid, unit))
            continue
        cfg = f.cfg
        # the sites
        sites = []
        for b, i, x, line in cfg.all_elems():
            if not isinstance(x, dict):
                continue
            for c in calls(x):
                if c.get("fn") not in ("BlockSwap", "memcpy"):
                    continue
                args = [cfg.resolve(a) for a in c["a"]]
                if not any("block_size" in show(a) for a in args[-1:]):
                    continue
                for a in args[:-1]:
                    for n in walk(a):
                        if n.get("k") == "mem" and n.get("f") == "start" and lv(n) and lv(n).count(".") == 1 and show(strip_casts(a)).replace(" ", "") in (lv(n), "&array[%s]" % lv(n), "(array+%s)" % lv(n)):
                            r = lv(n).split(".")[0]
                            if r.startswith("block"):
                                sites.append((b, i, line, r, c.get("fn")))
        if len(sites) < 4:
            rep.broken_("rule=%s %s: %d block accesses found, 4 confirmed by reading" % (rid, unit, len(sites)))
            continue
        ranges = sorted({s[3] for s in sites})
        for r in ranges:
            st = _nonempty_states(cfg, r)
            for b, i, line, rr, fn in sites:
                if rr != r:
                    continue
                key = "%s/WikiSort/%s(%s.start, block_size)@%d" % (unit, fn, r, sum(1 for s in sites if s[3] == r and (s[2], s[0], s[1]) <= (line, b, i)))
                v = st.get((b, i))
                if v == "N":
                    rep.ok(rid, key, f.loc(line), "Range_length(%s) > 0 holds on every path to the access" % r)
                else:
                    rep.fail(rid, key, f.loc(line), "%s() moves a block_size-long block starting at %s.start on a path where Range_length(%s) > 0 is not established: "
                             "with a short A half (few distinct values, >= 1024 elements) there is no whole A block and the access runs past the array" % (fn, r, r))


def _nonempty_states(cfg, r):
    """Forward must-analysis of one fact, `Range r is non-empty`: 'N' holds, ('S', e) start shifted by e (end not yet), 'U' unknown."""
    def meet(a, b):
        return a if a == b else "U"

    def transfer(b, st, rec=None):
        for i, e in enumerate(cfg.blocks[b].elems):
            if rec is not None:
                rec[(b, i)] = st
            x = e["x"]
            if not isinstance(x, dict):
                continue
            for l, kind, node in writes(x):
                t = lv(l)
                if t == r + ".start":
                    if kind == "compound" and node.get("op") == "+=" and st == "N":
                        st = ("S", show(cfg.resolve(node["r"])))
                    else:
                        st = "U"
                elif t == r + ".end":
                    if kind == "compound" and node.get("op") == "+=" and (st == "N" or (isinstance(st, tuple) and st[1] == show(cfg.resolve(node["r"])))):
                        st = "N"
                    else:
                        st = "U"
                elif t == r:
                    st = "U"
                elif isinstance(st, tuple) and t and t.split(".")[0].split("[")[0] in st[1]:
                    st = "U"
        return st

    def edge_gen(c, truth):
        cs = strip(c)
        if cs.get("k") == "bin" and cs["op"] in (">", "==", "!="):
            l, rr_ = strip_casts(cs["l"]), strip_casts(cs["r"])
            if l.get("k") == "call" and l.get("fn") == "Range_length" and lv(cfg.resolve(l["a"][0])) == r and int_value(rr_) == 0:
                if (cs["op"] in (">", "!=")) == truth:
                    return "N"
        return None

    IN = {b: None for b in cfg.blocks}
    IN[cfg.entry] = "U"
    work = [cfg.entry]
    while work:
        b = work.pop()
        out = transfer(b, IN[b])
        blk = cfg.blocks[b]
        c = cfg.cond(b)
        for si, s in enumerate(blk.succs):
            if s is None or si in blk.dead:
                continue
            o = out
            if c is not None and len(blk.succs) == 2:
                g = edge_gen(c, si == 0)
                if g:
                    o = g
            new = o if IN[s] is None else meet(IN[s], o)
            if IN[s] is None or new != IN[s]:
                IN[s] = new
                work.append(s)
    rec = {}
    for b in cfg.blocks:
        if IN[b] is not None:
            transfer(b, IN[b], rec)
    return rec


def r20_7(prog, rep, rid="R20.7"):
    """The rotation merge goes on until one of its two ranges is used up: what is left of A when the loop is left early stays where it
    is, in front of members of B that belong in front of it.  Every edge that leaves the loop of MergeInPlace() is the false side of an
    emptiness test of A or of B (the loop is evaluated with the length of one range fixed to 0 and to 1: the edge must be taken for 0
    and not for 1)."""
    from ..absw import eval_in
    n = 0
    for unit in ("instant.c", "event.c"):
        f = _template_fns(prog, unit).get("MergeInPlace")
        if f is None:
            rep.broken_("rule=%s %s: MergeInPlace not found" % (rid, unit))
            continue
        cfg = f.cfg
        ranges = [p_["n"] for p_ in f.params if "Range" in (p_.get("t") or "")]
        loops = cfg.natural_loops()
        mine = {h: blks for h, blks in loops.items()
                if any(c.get("fn") == "Range_length" for b in blks for e in cfg.blocks[b].elems if isinstance(e["x"], dict) for c in calls(e["x"]))}
        if len(ranges) != 2 or len(mine) != 1:
            rep.broken_("rule=%s %s: MergeInPlace has %d Range parameters and %d merge loops" % (rid, unit, len(ranges), len(mine)))
            continue
        (h, blks), = mine.items()

        def ev(c, r, length):
            def call_eval(q, store):
                if q.get("fn") == "Range_length" and q.get("a"):
                    return length if lv(strip_casts(cfg.resolve(q["a"][0]))) == r else 1      # the other range is not empty
                return None
            store = {r + ".start": 10, r + ".end": 10 + length}
            for o_ in ranges:
                if o_ != r:
                    store.update({o_ + ".start": 30, o_ + ".end": 31})
            return eval_in(store, c, f, call_eval)
        k = 0
        for b in sorted(blks):
            blk = cfg.blocks[b]
            for si, s_ in enumerate(blk.succs):
                if s_ is None or si in blk.dead or s_ in blks:
                    continue
                k += 1
                n += 1
                key = "%s/MergeInPlace/loop-exit#%d" % (unit, k)
                c = cfg.cond(b)
                line = blk.elems[-1].get("line") if blk.elems else None
                okr = None
                if c is not None and len(blk.succs) == 2:
                    for r in ranges:
                        v0, v1 = ev(c, r, 0), ev(c, r, 1)
                        if v0 is not None and v1 is not None and (0 if v0 else 1) == si and (0 if v1 else 1) != si:
                            okr = r
                if okr:
                    rep.ok(rid, key, f.loc(line), "the loop is left when %s is empty" % okr)
                else:
                    rep.fail(rid, key, f.loc(line), "the merge loop is left%s although neither %s nor %s is known to be empty: the rest of %s stays in "
                             "front of members of %s that sort before it — the output is a permutation but not in order (needs >= 2048 "
                             "elements with very few distinct values)" % (" on `%s`" % show(c)[:40] if c is not None else "", ranges[0], ranges[1], ranges[0], ranges[1]))
    if n < 2:
        rep.broken_("rule=%s expected >=2 loop exits (at least one per unit), found %d" % (rid, n))


_TIER = "quick"


def r20_8(prog, rep, rid="R20.8"):
    """What every caller takes the two binary searches for: BinaryFirst() answers the index in front of the first element that is not
    smaller than the value, BinaryLast() the index behind the last element that is not greater — over a run of equal elements the two
    ends of the run (stability rests on that, and so does the uniqueness of the values pulled into the internal buffer).  Both are
    walked over every sorted array of up to five elements with three distinct keys, whole and as an inner range, with the comparator
    modelled as `<` on the keys."""
    import bisect
    import itertools
    from ..absw import AbsWalk, eval_in
    n = 0
    for unit in ("instant.c", "event.c"):
        fns = _template_fns(prog, unit)
        for name, ref in (("BinaryFirst", bisect.bisect_left), ("BinaryLast", bisect.bisect_right)):
            f = fns.get(name)
            if f is None:
                rep.broken_("rule=%s %s: %s not found" % (rid, unit, name))
                continue
            cfg = f.cfg
            ap, vp, rp = (p_["n"] for p_ in f.params[:3])

            def call_eval(c, store):
                if (c.get("fn") or "").endswith("_lt_p") and len(c.get("a", ())) == 2:
                    a, b = (eval_in(store, cfg.resolve(x_), f, call_eval) for x_ in c["a"])
                    return None if a is None or b is None else int(a < b)
                return None
            bad = []
            cases = 0
            for ln in range(1, 8 if _TIER == "thorough" else 6):
                for arr in itertools.combinations_with_replacement((1, 2, 3, 4) if _TIER == "thorough" else (1, 2, 3), ln):
                    for lo, hi in ((0, ln),) + (((1, ln - 1),) if ln >= 3 else ()):
                        for v in ((0, 1, 2, 3, 4, 5) if _TIER == "thorough" else (0, 1, 2, 3, 4)):
                            init = {"%s[%d]" % (ap, k_): x_ for k_, x_ in enumerate(arr)}
                            init.update({vp: v, rp + ".start": lo, rp + ".end": hi})
                            outs = []

                            def effect(b, i, x, store, outs=outs):
                                if isinstance(x, dict) and x.get("k") == "ret" and x.get("e") is not None:
                                    outs.append(eval_in(store, cfg.resolve(x["e"]), f, call_eval))
                                return None
                            AbsWalk(f, {l_["n"] for l_ in f.locals}, init=init, effect=effect, call_eval=call_eval, max_states=5000).run()
                            cases += 1
                            want = lo + ref(list(arr[lo:hi]), v)
                            if len(set(outs)) != 1 or outs[0] != want:
                                bad.append((list(arr), (lo, hi), v, outs[0] if len(set(outs)) == 1 else None, want))
            n += 1
            key = "%s/%s/ends-of-the-run" % (unit, name)
            if bad:
                a_, r_, v_, g_, w_ = bad[0]
                rep.fail(rid, key, f.loc(), "%d of %d searches do not return the %s of the run of equal elements, e.g. %s(%s, %d, [%d, %d)) gives %s instead of %d: "
                         "an element is inserted among its equals instead of %s them (stability), and equal values get into the internal buffer"
                         % (len(bad), cases, "start" if name == "BinaryFirst" else "end", name, a_, v_, r_[0], r_[1], g_, w_,
                            "in front of" if name == "BinaryFirst" else "behind"), {"examples": [list(map(str, b_)) for b_ in bad[:10]]})
            else:
                rep.ok(rid, key, f.loc(), "%d searches over sorted arrays with runs of equal keys return the %s of the run" % (
                    cases, "start" if name == "BinaryFirst" else "end"))
    if n < 4:
        rep.broken_("rule=%s expected both searches in both units, found %d" % (rid, n))


def run(prog, rep, tier, snap):
    global _TIER
    _TIER = tier
    rep.rule("R20.1", "comparator is a strict order applied symmetrically", 5)
    rep.call(r20_1, prog, rep)
    rep.rule("R20.2", "template bindings and entry points", 6)
    rep.call(r20_2, prog, rep)
    rep.rule("R20.3", "stability polarity of the binary searches in the sort template", 20)
    rep.call(r20_3, prog, rep)
    rep.rule("R20.4", "whole-block accesses only while a whole A block exists", 8)
    rep.call(r20_4, prog, rep)
    rep.rule("R20.5", "polarity of the tie-deciding comparisons in the Find* helpers and the merges", 12)
    rep.call(r20_5, prog, rep)
    rep.rule("R20.6", "the cache is not used as scratch space while it holds a parked block", 8)
    rep.call(r20_6, prog, rep)
    rep.rule("R08.3", "sentinels wrap to zero: all-day sorts before timed (shared with C08)", 4)
    rep.call(c08.r08_3, prog, rep)
    rep.rule("R20.8", "the binary searches return the two ends of a run of equal elements (value-fixed walks over all small sorted arrays)", 4)
    rep.call(r20_8, prog, rep)
    rep.rule("R20.7", "the rotation merge runs until one of its ranges is empty", 2)
    rep.call(r20_7, prog, rep)
    from . import c03
    rep.rule("R03.6", "the sort entry points order instants through the comparators only, never by the packed word (shared with C03)", 1)
    rep.call(c03.r03_6, prog, rep, "R03.6", ("instant.c", "event.c", "wikisort.c", "event.h", "range.h"))
READY = True

# texts brought up to date with the rules added in the last rounds
LEVEL_TEXT = LEVEL_TEXT + ' Also: the rotation merge runs until one range is empty; the binary searches return the two ends of a run of equal elements (walks over every sorted array of up to five elements with three keys); no raw word comparison in the sort entry points.'
TECHNIQUE = (TECHNIQUE if isinstance(TECHNIQUE, str) else TECHNIQUE) + '; value-fixed walks of the binary searches over all small sorted arrays'

