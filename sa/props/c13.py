"""C13 — executor runs the job as specified and routes its output as configured (narrow structural clauses)."""
import itertools

from ..facts import walk, strip, strip_casts, lv, show, writes, calls, int_value
from ..flow import MustFacts, cond_atoms
from ..q import (Site, call_sites, site_before, forward_scan, backward_scan, const_eval, str_value, edge_start, must_pass_to_exit, elem_has_call)
from ..absw import AbsWalk, eval_in, symbol_id
from ..snapshot import AnalysisBroken

UNITS = None
EXPLANATION = (
    "R13.1 the 20-row routing table: prep_task's branch cascade is walked (path-sensitive constant propagation) for each of the 20 feasible "
    "assignments of {stdout file set, stderr file set, same file, mail-out, mail-err} with open/mkstemp/pipe as symbolic descriptor sources; "
    "the final roles (child stdout/stderr descriptors, pipe read ends, mail descriptor, tee descriptors, mail file name, remove flag) are "
    "combined with the pumping semantics read from run_task (pipe data -> mail descriptor and, if set, the tee descriptor) and compared with "
    "the statement: stdout reaches the file `out` iff set and the mail body iff mail-out, likewise stderr; nothing else receives a stream; "
    "the temporary file is removed iff it is the mail file. R13.2 privilege and set-up order in echsx(): setgid before setuid, both tested "
    "with the failure edge bypassing the spawn; umask/chdir/opens precede the single posix_spawn; run_task once, on prep_task's success edge. "
    "R13.3 journal lock pairing (lock .. flush .. unlock on every exit), clean-up after prep_task, exit status written only by the child callback. R13.4: the child watcher whose callback ends the run is registered for "
    "termination only (trace = 0). R13.5: the offset at which a chunk is copied from the mail file (shared by the stdout and stderr "
    "watchers) to an output file derives from a position query on that file. R13.6: an error number returned by posix_spawn() reaches "
    "failure handling that a 0 does not (the job spawn and the mailer spawn), so a spawn that failed is not journalled as a job that ran.")
NOT_DECIDED = ("that bytes actually arrive (pipe pumping loops, splice/sendfile, sizes beyond pipe capacity), exit-status plumbing through libev, "
               "the mail transport; the behaviour itself")
TRUSTED = ["clang 14 parser/CFG builder", "echse-facts extractor", "python rule engines in /verif/sa", "open(2)/pipe(2)/mkstemp(3) succeed in the walked configurations"]
LEVEL_TEXT = ("Static verdict on narrow necessary clauses of C13: the complete 20-row descriptor plan of prep_task against the documented "
              "routing table, the privilege/set-up order before the single spawn, and journal lock pairing / clean-up. It does NOT decide that "
              "the bytes arrive, nor exit-status recording at run time. Also: the journal position is moved to the end under the lock; with a tee set the mail descriptor is opened readable.")
LEVEL_NOTE = "Trusted: clang 14 front end/CFG, extractor, rule engines; descriptor sources are assumed to succeed (failure fallbacks to /dev/null are outside the table)."
TECHNIQUE = "static analysis: configuration-path enumeration (path-sensitive constant propagation over 20 assignments) against the routing table; dominance/order and pairing rules; open-flag constants on tee paths"

OUT, ERR = 5001, 5002
NUL, TMP = 7000, 7001
FD = 100000            # descriptor of file value v: FD + v
PR, PW = 200000, 300000  # pipe read / write ends


def _configs():
    out = []
    for so, se, same, mo, me in itertools.product((0, 1), (0, 1), (0, 1), (0, 1), (0, 1)):
        if same and not (so and se):
            continue
        out.append((so, se, same, mo, me))
    return out


def r13_1(prog, rep):
    rid = "R13.1"
    f = prog.fn("prep_task", "echsx.c")
    cfg = f.cfg
    t = f.params[0]["n"]
    # the roles of the locals are read off their uses, not their names: the template is what mkstemp() is handed, the null device is
    # the static string "/dev/null", the result is what is returned
    tmpl_n = nul_n = rc_n = None
    for b_, i_, x_, l_ in cfg.all_elems():
        if not isinstance(x_, dict):
            continue
        for c_ in calls(x_):
            if c_.get("fn") == "mkstemp" and c_.get("a"):
                a_ = strip_casts(cfg.resolve(c_["a"][0]))
                if a_.get("k") == "ref":
                    tmpl_n = a_["n"]
        if x_.get("k") == "ret" and x_.get("e") is not None:
            e_ = strip_casts(cfg.resolve(x_["e"]))
            if e_.get("k") == "ref":
                rc_n = e_["n"]
    for tn, ts in prog.tables.items():
        for t_ in ts:
            if t_.get("file") == "echsx.c" and t_.get("str") == "/dev/null":
                nul_n = tn
    if nul_n is None:
        for l_ in f.locals:
            if l_.get("static") and "char" in (l_.get("t") or "") and l_["n"] != tmpl_n:
                nul_n = nul_n or l_["n"]
    if tmpl_n is None or nul_n is None:
        raise AnalysisBroken("prep_task: mail template / null device name not found (%s, %s)" % (tmpl_n, nul_n))
    tmpl = symbol_id(tmpl_n)
    nulfn = symbol_id(nul_n)
    confs = _configs()
    if len(confs) != 20:
        raise AnalysisBroken("expected 20 configurations, enumerated %d" % len(confs))
    rows = []
    for so, se, same, mo, me in confs:
        outv = OUT if so else 0
        errv = (OUT if same else ERR) if se else 0
        init = {"%s->t->out" % t: outv, "%s->t->err" % t: errv, "%s->t->mailout" % t: mo, "%s->t->mailerr" % t: me,
                "%s->t->in" % t: 0, "%s->t->run_as.wd" % t: 0}
        pipes = {"n": 0}
        aborted = []

        def call_eval(c, store):
            fn = c.get("fn")
            if fn == "open":
                p = eval_in(store, cfg.resolve(c["a"][0]), f)
                if p is None:
                    return None
                if p == nulfn:
                    return FD + NUL
                return FD + p
            if fn == "mkstemp":
                return FD + TMP
            if fn == "strcmp":
                a, b = eval_in(store, cfg.resolve(c["a"][0]), f), eval_in(store, cfg.resolve(c["a"][1]), f)
                if a is None or b is None:
                    return None
                return 0 if a == b else 1
            if fn in ("pipe", "chdir", "fd_cloexec", "close"):
                return 0
            return None

        def effect(b, i, x, store):
            upd = {}
            for c in calls(x):
                if c.get("fn") == "pipe":
                    arr = lv(strip_casts(cfg.resolve(c["a"][0])))
                    k = pipes["n"]
                    pipes["n"] += 1
                    upd["%s[0]" % arr] = PR + k
                    upd["%s[1]" % arr] = PW + k
                if c.get("fn") in ("abort", "__assert_fail"):
                    upd["$aborted"] = 1
            return upd
        tracked = set(init) | {"%s->%s" % (t, fl) for fl in ("ifd", "ofd", "efd", "mfd", "opip", "epip", "teeo", "teee", "mfn", "mrm")} | \
            {l_["n"] for l_ in f.locals if l_.get("w") and not l_.get("static")} | {"opip[0]", "opip[1]", "epip[0]", "epip[1]"}
        w = AbsWalk(f, tracked, init=init, effect=effect, call_eval=call_eval)
        w.run()
        finals = [s for s in w.exit_stores if not s.get("$aborted")]
        key = "prep_task/row out=%s err=%s mail-out=%d mail-err=%d" % ("F1" if so else "-", ("F1" if same else "F2") if se else "-", mo, me)
        if len(finals) != 1:
            states = {tuple(sorted((k, v) for k, v in s.items() if k.startswith(t + "->") and "->t->" not in k)) for s in finals}
            if len(states) != 1:
                rep.fail(rid, key, f.loc(), "descriptor plan is not determined by the configuration (%d distinct final plans, %d forks)" % (len(states), w.forks))
                continue
        if not finals:
            rep.fail(rid, key, f.loc(), "no normal exit of prep_task for this configuration (abort/assert on every path)")
            continue
        s = finals[0]
        g = lambda fld: s.get("%s->%s" % (t, fld))
        if rc_n and s.get(rc_n) not in (0, None):
            rep.fail(rid, key, f.loc(), "prep_task fails (%s=%s) although every descriptor source succeeds" % (rc_n, s.get(rc_n)))
            continue
        ofd, efd, mfd, teeo, teee, opip, epip, mfn, mrm = (g("ofd"), g("efd"), g("mfd"), g("teeo"), g("teee"), g("opip"), g("epip"), g("mfn"), g("mrm"))
        if None in (ofd, efd):
            rep.fail(rid, key, f.loc(), "child stdout/stderr descriptor undetermined (ofd=%s efd=%s)" % (ofd, efd))
            continue

        def dests(childfd, pipe_r, tee):
            if childfd is not None and PW <= childfd < PW + 10:
                # pumped by data_cb: always to the mail descriptor, and to the tee descriptor if set
                k = childfd - PW
                if pipe_r != PR + k:
                    return {"<pipe without reader>"}
                d = set()
                if mfd is not None and mfd >= 0:
                    d.add(mfd)
                else:
                    d.add("<no mail descriptor>")
                if tee is not None and tee >= 0:
                    d.add(tee)
                return d
            return {childfd}
        d_out = dests(ofd, opip, teeo)
        d_err = dests(efd, epip, teee)
        mailfile = None
        if mfn is not None and mfn != 0:
            mailfile = FD + TMP if mfn == tmpl else FD + mfn

        def names(ds):
            out_ = []
            for d in sorted(ds, key=str):
                if d == FD + NUL:
                    out_.append("/dev/null")
                elif d == FD + TMP:
                    out_.append("tmpfile")
                elif d == FD + OUT:
                    out_.append("F1")
                elif d == FD + ERR:
                    out_.append("F2")
                else:
                    out_.append(str(d))
            return out_
        problems = []
        for stream, ds, fileset, mailflag, fval in (("stdout", d_out, so, mo, outv), ("stderr", d_err, se, me, errv)):
            want = set()
            if fileset:
                want.add(FD + fval)
            real = {d for d in ds if d != FD + NUL}
            # destinations other than the mail file
            nonmail = {d for d in real if d != mailfile}
            if fileset and (FD + fval) not in real:
                problems.append("%s does not reach its file (%s)" % (stream, names(ds)))
            if mailflag:
                if mailfile is None or mailfile not in real:
                    problems.append("%s is to be mailed but does not reach the mail file (%s; mail file %s)" % (stream, names(ds), names({mailfile}) if mailfile else None))
            else:
                if mailfile is not None and mailfile in real and not (fileset and mailfile == FD + fval):
                    problems.append("%s is not to be mailed but reaches the mail body (%s)" % (stream, names(ds)))
            extra = {d for d in nonmail if not (fileset and d == FD + fval)}
            if extra:
                problems.append("%s also reaches %s" % (stream, names(extra)))
            if not fileset and not mailflag and real:
                problems.append("%s should be discarded but reaches %s" % (stream, names(real)))
        # when a stream's own file doubles as the mail file the other stream must not be mailed through it unless flagged
        if mailfile is not None and not (mo or me):
            problems.append("a mail file is designated although nothing is to be mailed")
        if (mo or me) and mailfile is None:
            problems.append("output is to be mailed but no mail file is designated")
        want_rm = 1 if (mfn == tmpl) else 0
        if (mrm or 0) != want_rm:
            problems.append("remove flag is %s but the mail file is %s" % (mrm, "the temporary file" if mfn == tmpl else "a user file / none"))
        row = {"config": {"out": so, "err": se, "same": same, "mailout": mo, "mailerr": me},
               "stdout": names(d_out), "stderr": names(d_err), "mailfile": names({mailfile}) if mailfile else None, "mrm": mrm or 0}
        rows.append(row)
        if problems:
            rep.fail(rid, key, f.loc(), "; ".join(problems), row)
        else:
            rep.ok(rid, key, f.loc(), "stdout -> %s, stderr -> %s, mail file %s, rm=%s" % (names(d_out), names(d_err), row["mailfile"], mrm or 0))
    rep.extra["R13.1_table"] = rows
    # the pumping semantics assumed above: run_task binds data_s.mailfd = t->mfd and data_s.filefd = t->teeo / t->teee, child fds = ofd/efd
    rt = prog.fn("run_task", "echsx.c")
    ok = 0
    for b, i, x, line in rt.cfg.all_elems():
        xr = rt.cfg.resolve(x)
        if isinstance(xr, dict) and xr.get("k") == "decl":
            for d in xr["ds"]:
                ini = strip_casts(d.get("init")) if d.get("init") is not None else None
                if ini is not None and ini.get("k") == "init":
                    fs = {p[0]: lv(p[1]) for p in ini["fs"] if p[1] is not None}
                    if fs.get("mailfd", "").endswith("->mfd") and fs.get("filefd", "").endswith(("->teeo", "->teee")):
                        ok += 1
    dups = [(lv(rt.cfg.resolve(c["a"][1])), const_eval(rt, c["a"][2])) for b, i, c, line in rt.all_calls() if c.get("fn") == "posix_spawn_file_actions_adddup2"]
    want_d = {("%s->ifd" % rt.params[0]["n"], 0), ("%s->ofd" % rt.params[0]["n"], 1), ("%s->efd" % rt.params[0]["n"], 2)}
    if ok == 2 and set(dups) == want_d:
        rep.ok(rid, "run_task/plumbing", rt.loc(), "child 0/1/2 = ifd/ofd/efd; both pumps write to mfd and tee to teeo / teee")
    else:
        rep.fail(rid, "run_task/plumbing", rt.loc(), "run_task no longer binds the roles as assumed by the routing table (pumps: %d, dup2: %s)" % (ok, sorted(dups)))
    dc = prog.fn("data_cb", "echsx.c")
    wr = [lv(strip_casts(dc.cfg.resolve(c["a"][0]))) for b, i, c, line in dc.all_calls() if c.get("fn") in ("sendfile", "write")]
    sp = [c for b, i, c, line in dc.all_calls() if c.get("fn") == "splice"]
    if sp and any(w_ == "ofd" for w_ in wr):
        rep.ok(rid, "data_cb/pump", dc.loc(), "data_cb moves pipe data to the mail descriptor and copies it to the file descriptor when set")
    else:
        rep.fail(rid, "data_cb/pump", dc.loc(), "data_cb no longer writes pipe data to both the mail and the file descriptor")


def r13_2(prog, rep):
    rid = "R13.2"
    f = prog.fn("echsx", "echsx.c")
    cfg = f.cfg
    sg, su = call_sites(f, "setgid"), call_sites(f, "setuid")
    if len(sg) == 1 and len(su) == 1 and site_before(cfg, sg[0], su[0]):
        rep.ok(rid, "echsx/setgid-before-setuid", f.loc(sg[0].line), "group is switched while still privileged, then the user")
    else:
        rep.fail(rid, "echsx/setgid-before-setuid", f.loc(), "setgid must precede setuid (found %d/%d calls)" % (len(sg), len(su)))
    for S in sg + su:
        c = cfg.cond(S.b)
        fail_edge = None
        if c is not None:
            for a in cond_atoms(c, True):
                if len(a) == 5 and a[0] == "<" and int_value(a[4]) == 0 and S.node["fn"] in a[1]:
                    fail_edge = 0
        key = "echsx/%s-checked" % S.node["fn"]
        if fail_edge is None:
            rep.fail(rid, key, f.loc(S.line), "result of %s is not tested: the job could run with the daemon's privileges" % S.node["fn"])
            continue
        hits, _ = forward_scan(cfg, edge_start(cfg, S.b, 0), lambda b, i, x: "hit" if elem_has_call(x, ("prep_task", "run_task")) else None)
        if hits:
            rep.fail(rid, key, f.loc(S.line), "a failing %s can still reach prep_task/run_task" % S.node["fn"])
        else:
            rep.ok(rid, key, f.loc(S.line), "%s < 0 bypasses prep_task and run_task" % S.node["fn"])
    pt, rt = call_sites(f, "prep_task"), call_sites(f, "run_task")
    um = [u for u in call_sites(f, "umask") if lv(cfg.resolve(u.node["a"][0])).endswith("->umsk")]
    if len(pt) == 1 and len(rt) == 1:
        order = all(site_before(cfg, x, pt[0]) for x in sg + su) and (um and site_before(cfg, um[0], pt[0])) and site_before(cfg, pt[0], rt[0])
        if order:
            rep.ok(rid, "echsx/order", f.loc(rt[0].line), "setgid, setuid, umask -> prep_task -> run_task")
        else:
            rep.fail(rid, "echsx/order", f.loc(), "set-up order broken (privileges/umask must precede prep_task, which precedes run_task)")
        # run_task only on prep_task's success edge
        c = cfg.cond(pt[0].b)
        ok = False
        if c is not None:
            for a in cond_atoms(c, True):
                if len(a) == 5 and a[0] == "<" and int_value(a[4]) == 0 and "prep_task" in a[1]:
                    hits, _ = forward_scan(cfg, edge_start(cfg, pt[0].b, 0), lambda b, i, x: "hit" if elem_has_call(x, "run_task") else None)
                    ok = not hits
        if ok:
            rep.ok(rid, "echsx/run-on-prep-success", f.loc(pt[0].line), "a failing prep_task bypasses run_task")
        else:
            rep.fail(rid, "echsx/run-on-prep-success", f.loc(pt[0].line), "run_task is reachable although prep_task failed")
        # umask argument is the task's umask
        if um and lv(cfg.resolve(um[0].node["a"][0])).endswith("->umsk"):
            rep.ok(rid, "echsx/umask-arg", f.loc(um[0].line), "umask(t->umsk)")
        else:
            rep.fail(rid, "echsx/umask-arg", f.loc(), "umask is not set from the task's umask")
    else:
        rep.fail(rid, "echsx/order", f.loc(), "expected one prep_task and one run_task call, found %d/%d" % (len(pt), len(rt)))
    # run_task (executor): exactly one posix_spawn, not in a loop, shell and cwd as requested
    r = prog.fn("run_task", "echsx.c")
    sp = call_sites(r, "posix_spawn")
    loops = r.cfg.natural_loops()
    if len(sp) == 1 and not any(sp[0].b in blks for blks in loops.values()):
        rep.ok(rid, "run_task/single-spawn", r.loc(sp[0].line), "exactly one posix_spawn, outside any loop")
    else:
        rep.fail(rid, "run_task/single-spawn", r.loc(), "the command can be spawned %s" % ("in a loop" if sp else "never"))
    sh = False
    for b, i, x, line in r.cfg.all_elems():
        for l, kind, n in writes(r.cfg.resolve(x)):
            if lv(l) in ("*args", "args[0]") and n.get("k") == "bin" and lv(n["r"]).endswith("run_as.sh"):
                sh = True
    argv = None
    for l in r.locals:
        if l["n"] == "args":
            argv = l
    dcl = [r.cfg.resolve(x) for b, i, x, line in r.cfg.all_elems() if isinstance(x, dict) and x.get("k") == "decl" and any(d["n"] == "args" for d in x["ds"])]
    cmd_ok = dcl and any("->cmd" in show(d) and '"-c"' in show(d) for d in dcl)
    if sh and cmd_ok:
        rep.ok(rid, "run_task/shell-and-command", r.loc(), "argv = {requested shell, -c, command}")
    else:
        rep.fail(rid, "run_task/shell-and-command", r.loc(), "the command is not run as `<X-ECHS-SHELL> -c <SUMMARY>` (shell override %s, argv %s)" % (sh, bool(cmd_ok)))
    # chdir to the requested directory happens in prep_task before any output file is opened (relative names)
    p = prog.fn("prep_task", "echsx.c")
    cd = call_sites(p, "chdir")
    opens = [S for S in call_sites(p, "open") if (const_eval(p, S.node["a"][1]) or 0) & 0o100]
    if cd and opens and lv(p.cfg.resolve(cd[0].node["a"][0])).endswith("run_as.wd"):
        # on no path does the creation of an output file precede the chdir: the chdir is not reachable from any creating open
        early = [o for o in opens if (o.b == cd[0].b and o.i < cd[0].i) or (o.b != cd[0].b and cd[0].b in p.cfg.reach_from(o.b))]
        if not early:
            rep.ok(rid, "prep_task/chdir-first", p.loc(cd[0].line), "chdir(run_as.wd) precedes the creation of output files on every path")
        else:
            rep.fail(rid, "prep_task/chdir-first", p.loc(early[0].line), "an output file is created on a path that enters the working directory only afterwards "
                     "(relative OFILE/EFILE names end up in the daemon's directory)")
    else:
        rep.fail(rid, "prep_task/chdir-first", p.loc(), "prep_task does not chdir to the requested directory")


def r13_8(prog, rep):
    """When a tee is active (t->teeo / t->teee set) data_cb() first splices the job's output into t->mfd and then copies it on with
    sendfile()/pread() *from* t->mfd: on every path of prep_task() that sets a tee, an open() whose descriptor becomes t->mfd must ask
    for read access."""
    rid = "R13.8"
    p = prog.fn("prep_task", "echsx.c")
    cfg = p.cfg

    def sets_tee(x):
        for l, kind, nn in writes(x):
            t_ = lv(l)
            if (t_.endswith("->teeo") or t_.endswith("->teee")) and nn.get("k") == "bin" and nn["op"] == "=":
                r_ = strip_casts(cfg.resolve(nn["r"]))
                while r_.get("k") == "bin" and r_.get("op") == "=":     # a = b = c = -1
                    r_ = strip_casts(r_["r"])
                v = const_eval(p, r_)
                if v is None or v >= 0:
                    return True
        return False
    n = ntee = 0
    for b, i, x, line in cfg.all_elems():
        tg = [lv(l) for l, kind, nn in writes(cfg.resolve(x)) if kind == "assign"]
        if not any(t_.endswith("->mfd") or t_.endswith(".mfd") for t_ in tg):
            continue
        for c in calls(cfg.resolve(x)):
            if c.get("fn") not in ("open", "openat", "open64"):
                continue
            n += 1
            hits, _ = backward_scan(cfg, (b, i), lambda bb, ii, xx: "hit" if isinstance(xx, dict) and sets_tee(xx) else None)
            if not hits:
                continue        # no tee on any path to here: the descriptor is only written to, the mailer re-opens the file by name
            ntee += 1
            fl = const_eval(p, c["a"][1] if c["fn"] != "openat" else c["a"][2])
            key = "prep_task/mfd-readable-under-tee#%d" % ntee
            if fl is None:
                rep.fail(rid, key, p.loc(c.get("line", line)), "open flags of the mail file are not a compile-time constant")
            elif (fl & 3) in (0, 2):
                rep.ok(rid, key, p.loc(c.get("line", line)), "with a tee set, the file that becomes t->mfd is opened %s" % ("O_RDWR" if fl & 3 == 2 else "O_RDONLY"))
            else:
                rep.fail(rid, key, p.loc(c.get("line", line)), "a tee is set on a path to here and the file that becomes t->mfd is opened write-only (flags %#o): "
                         "data_cb()'s sendfile()/pread() from it fail, the second copy (the mail / the user's other file) stays empty" % fl)
    # the tee copies with splice(2) into t->mfd and sendfile(2) into t->teeo / t->teee; both refuse (EINVAL) a descriptor opened with
    # O_APPEND, and data_cb() takes the failure for end-of-file: on a path that sets a tee none of these files may be opened O_APPEND
    O_APPEND = 0o2000       # <fcntl.h> on Linux
    nap = 0
    for b, i, x, line in cfg.all_elems():
        tg = [lv(l) for l, kind, nn in writes(cfg.resolve(x)) if kind == "assign"]
        if not any(t_.endswith(("->mfd", "->teeo", "->teee")) for t_ in tg):
            continue
        for c in calls(cfg.resolve(x)):
            if c.get("fn") not in ("open", "openat", "open64"):
                continue
            hits, _ = backward_scan(cfg, (b, i), lambda bb, ii, xx: "hit" if isinstance(xx, dict) and sets_tee(xx) else None)
            tee_here = bool(hits) or any(t_.endswith(("->teeo", "->teee")) for t_ in tg)
            if not tee_here:
                continue
            nap += 1
            fl = const_eval(p, c["a"][1] if c["fn"] != "openat" else c["a"][2])
            key = "prep_task/tee-target-not-append#%d" % nap
            if fl is not None and not fl & O_APPEND:
                rep.ok(rid, key, p.loc(c.get("line", line)), "a descriptor the tee splices / sendfiles into is opened without O_APPEND", nontrivial=(nap == 1))
            else:
                rep.fail(rid, key, p.loc(c.get("line", line)), "%s is opened with O_APPEND (flags %s) and then used as the target of splice()/sendfile() by the tee: "
                         "both fail with EINVAL on such a descriptor, data_cb() takes that for end-of-file and the file (and the mail) stay empty" % (
                             [t_ for t_ in tg if t_.endswith(("->mfd", "->teeo", "->teee"))][0], "%#o" % fl if fl is not None else "?"))
    if n < 4 or ntee < 1 or nap < 3:
        rep.broken_("rule=R13.8 expected >=4 open() sites feeding t->mfd, >=1 of them under a tee, >=3 tee targets; found %d/%d/%d" % (n, ntee, nap))


def r13_3(prog, rep):
    rid = "R13.3"
    # the lock is taken relative to the end of the journal and the write position is moved there *under* the lock
    fl_ = prog.fn("fdlock", "echsx.c")
    fcs = [S for S in call_sites(fl_, "fcntl")]
    if not fcs:
        rep.fail(rid, "fdlock/seek-to-end-under-lock", fl_.loc(), "fdlock() no longer takes an fcntl() lock")
    else:
        bad = []
        for b, i, x, line in fl_.cfg.all_elems():
            if not (isinstance(x, dict) and x.get("k") == "ret"):
                continue
            e = x.get("e")
            v = const_eval(fl_, fl_.cfg.resolve(e)) if e is not None else None
            if v is not None and v < 0:
                continue        # failure return
            hits, reached_entry = backward_scan(fl_.cfg, (b, i), lambda bb, ii, xx: "hit" if (elem_has_call(xx, "lseek") or elem_has_call(xx, "fcntl")) else None)
            if reached_entry or any(not elem_has_call(fl_.cfg.elem(*h), "lseek") for h in hits):
                bad.append(line)
            else:
                for h in hits:
                    for c in calls(fl_.cfg.elem(*h)):
                        if c.get("fn") == "lseek" and const_eval(fl_, c["a"][2]) != 2:
                            bad.append(line)
        if bad:
            rep.fail(rid, "fdlock/seek-to-end-under-lock", fl_.loc(bad[0]), "fdlock() can report success without having moved the descriptor to the end of the "
                     "journal after the lock was granted: a record another execution appended while we waited is overwritten")
        else:
            rep.ok(rid, "fdlock/seek-to-end-under-lock", fl_.loc(), "every successful return of fdlock() has done lseek(fd, 0, SEEK_END) after the lock")
    from ..inline import with_inlined
    j0 = prog.fn("jlog_task", "echsx.c")
    # the journal writer and its lock helpers are read as one piece of code (the helpers may have been folded into it)
    j = with_inlined(prog, j0, [n_ for n_ in ("fdlock", "fdunlck") if prog.has_fn(n_, "echsx.c")])
    cfg = j.cfg
    F_UNLCK = 2     # <fcntl.h> on Linux/glibc: F_RDLCK 0, F_WRLCK 1, F_UNLCK 2

    def lock_kind(c):
        """'lock' / 'unlock' for an fcntl() record-lock call, from the l_type its struct flock is initialised with."""
        if c.get("fn") != "fcntl" or len(c["a"]) < 3:
            return None
        a2 = strip_casts(cfg.resolve(c["a"][2]))
        if a2.get("k") == "un" and a2.get("op") == "&":
            a2 = strip_casts(a2["e"])
        if a2.get("k") != "ref":
            return None
        for b_, i_, x_, ln_ in cfg.all_elems():
            if isinstance(x_, dict) and x_.get("k") == "decl":
                for d in x_["ds"]:
                    if d["n"] == a2["n"] and d.get("init") is not None:
                        ini = strip_casts(cfg.resolve(d["init"]))
                        if ini.get("k") == "init":
                            for fname, fval in ini["fs"]:
                                if fname == "l_type":
                                    v = const_eval(j, fval) if fval is not None else 0
                                    return "unlock" if v == F_UNLCK else "lock"
        return None
    lk = [S for S in call_sites(j, "fcntl") if lock_kind(S.node) == "lock"]
    ul = [S for S in call_sites(j, "fcntl") if lock_kind(S.node) == "unlock"]
    if not lk or not ul:
        rep.fail(rid, "jlog_task/lock-pairing", j.loc(), "journal is written without taking and releasing the record lock (%d/%d)" % (len(lk), len(ul)))
    else:
        L = lk[0]
        # path-sensitive: ghost $locked is set by the locking fcntl(), cleared on its failure edge and by the unlocking fcntl();
        # no exit may hold it
        def effect(b, i, x, store):
            upd = {}
            for c in calls(x):
                k_ = lock_kind(c)
                if k_ == "unlock":
                    upd["$locked"] = 0
                elif k_ == "lock":
                    upd["$locked"] = 1
            return upd

        def assume(b, si, cond, store):
            for truth in (True, False):
                for a in cond_atoms(cond, truth):
                    if len(a) == 5 and a[0] == "<" and int_value(a[4]) == 0:
                        l_ = strip(a[3])
                        if isinstance(l_, dict) and l_.get("k") == "call" and lock_kind(l_) == "lock" and (si == 0) == truth:
                            return {"$locked": 0}       # the lock was not granted
            return None
        counters = {l_["n"] for l_ in j.locals if (l_.get("t") or "") in ("size_t", "int", "unsigned int")}
        w = AbsWalk(j, counters, effect=effect, assume=assume).run()
        held = [s_ for s_ in w.exit_stores if s_.get("$locked")]
        if w.exit_stores and not held:
            rep.ok(rid, "jlog_task/unlock-on-every-exit", j.loc(L.line), "after a granted lock every feasible exit passes the unlocking fcntl() (%d abstract states)" % len(w.visited))
        else:
            rep.fail(rid, "jlog_task/unlock-on-every-exit", j.loc(L.line), "a feasible path leaves jlog_task with the journal still locked")
        fl = call_sites(j, "fdflush")
        if fl and all(site_before(cfg, fl[-1], u) or fl[-1].b == u.b for u in ul):
            rep.ok(rid, "jlog_task/flush-before-unlock", j.loc(ul[0].line), "buffered journal text is flushed before the lock is released")
        else:
            rep.fail(rid, "jlog_task/flush-before-unlock", j.loc(), "the lock is released before the buffered entry is flushed (interleaved journal entries)")
        # all writes lie between lock and unlock
        wr = [S for S in call_sites(j, ("fdprintf", "fdwrite", "fdputc"))]
        bad = [S for S in wr if not site_before(cfg, L, S)]
        if bad:
            rep.fail(rid, "jlog_task/writes-under-lock", j.loc(bad[0].line), "journal text is written before the lock is taken")
        else:
            rep.ok(rid, "jlog_task/writes-under-lock", j.loc(), "%d write sites all follow the locking fcntl()" % len(wr))
    j = j0
    # exit status / signal fields read t->xc
    txt = []
    for b, i, c, line in j.all_calls():
        if c.get("fn") == "fdprintf":
            fmt = str_value(prog, j, c["a"][0]) or ""
            if "EXIT" in fmt.upper() or "SIGNAL" in fmt.upper():
                txt.append((fmt.split(":")[0], " ".join(show(j.cfg.resolve(a)) for a in c["a"][1:])))
    def derives_xc(text, depth=0):
        if "->xc" in text:
            return True
        if depth > 3:
            return False
        for l_ in j.locals:
            import re as _re
            if _re.search(r"\b%s\b" % _re.escape(l_["n"]), text):
                for b_, i_, x_, ln_ in j.cfg.all_elems():
                    for ll, kk, nn in writes(j.cfg.resolve(x_)):
                        if lv(ll) == l_["n"]:
                            rhs = nn.get("init") if kk == "decl" else nn.get("r")
                            if rhs is not None and derives_xc(show(rhs), depth + 1):
                                return True
        return False
    if txt and all(derives_xc(t_[1]) for t_ in txt):
        rep.ok(rid, "jlog_task/status-from-xc", j.loc(), "%s are printed from the recorded wait status" % ", ".join(t_[0] for t_ in txt))
    else:
        rep.fail(rid, "jlog_task/status-from-xc", j.loc(), "exit/signal fields %s do not print t->xc" % txt)
    # writers of xc after the spawn: only the child callback (and the spawn-failure / assume-success defaults in run_task)
    ws = []
    for f in prog.fns_in("echsx.c"):
        if not f.cfg:
            continue
        for b, i, x, line in f.cfg.all_elems():
            for l, kind, n in writes(x):
                if lv(l).endswith("->xc"):
                    ws.append((f.name, show(f.cfg.resolve(n.get("r") or {}))[:30]))
    allowed = {"chld_cb", "run_task"}
    if {w_[0] for w_ in ws} <= allowed and any(w_[0] == "chld_cb" and "rstatus" in w_[1] for w_ in ws):
        rep.ok(rid, "xc/writers", "src/echsx.c", "t->xc is written by the child callback from c->rstatus (defaults in run_task): %s" % ws)
    else:
        rep.fail(rid, "xc/writers", "src/echsx.c", "t->xc is written by %s" % ws)
    # clean-up: every exit of echsx() after prep_task passes free_task; free_task unlinks the temp mail file when flagged
    e = prog.fn("echsx", "echsx.c")
    pt = call_sites(e, "prep_task")
    if pt and must_pass_to_exit(e.cfg, (pt[0].b, pt[0].i), lambda x: elem_has_call(x, "free_task")):
        rep.ok(rid, "echsx/cleanup-after-prep", e.loc(pt[0].line), "every exit after prep_task passes free_task")
    else:
        rep.fail(rid, "echsx/cleanup-after-prep", e.loc(), "an exit after prep_task skips free_task: temporary files and descriptors leak")
    ft = prog.fn("free_task", "echsx.c")
    un = call_sites(ft, "unlink")
    ok = False
    for U in un:
        facts = MustFacts(ft.cfg).at(U.b, U.i) or set()
        if lv(ft.cfg.resolve(U.node["a"][0])).endswith("->mfn") and any(fx[0] == "true" and fx[1].endswith("->mrm") for fx in facts):
            ok = True
    if ok:
        rep.ok(rid, "free_task/unlink-temp", ft.loc(), "the mail file is unlinked exactly when the remove flag is set")
    else:
        rep.fail(rid, "free_task/unlink-temp", ft.loc(), "free_task does not unlink t->mfn under t->mrm")


def r13_5(prog, rep):
    """The mail file is shared by the stdout and the stderr watcher (both data_s get .mailfd = t->mfd): where the chunk just spliced
    sits in it is known only to the file.  The offset handed to sendfile()/pread() on the mail descriptor must therefore derive from
    a position query on that descriptor (lseek) and the chunk length, never from per-stream bookkeeping alone."""
    rid = "R13.5"
    f = prog.fn("data_cb", "echsx.c")
    cfg = f.cfg
    # sharing: every data_s initialiser in run_task takes the same mail descriptor
    rt = prog.fn("run_task", "echsx.c")
    mails = set()
    for b, i, x, line in rt.cfg.all_elems():
        for n in walk(rt.cfg.resolve(x)):
            if n.get("k") == "init" and "data_s" in (n.get("t") or ""):
                for name, val in n["fs"]:
                    if name == "mailfd" and val is not None:
                        mails.add(lv(val))
    if len(mails) == 1:
        rep.ok(rid, "run_task/shared-mail-file", rt.loc(), "both stream watchers append to %s" % sorted(mails)[0])
    else:
        rep.note(rid, "run_task/shared-mail-file", rt.loc(), "stream watchers use %s as mail descriptors" % sorted(mails))
    n = 0
    for b, i, c, line in f.all_calls():
        if c.get("fn") not in ("sendfile", "pread"):
            continue
        args = [cfg.resolve(a) for a in c["a"]]
        infd = lv(args[1]) if c["fn"] == "sendfile" else lv(args[0])
        off = args[2] if c["fn"] == "sendfile" else args[3]
        offv = None
        for r in walk(off):
            if r.get("k") == "ref" and r.get("dk") == "local":
                offv = r["n"]
        n += 1
        key = "data_cb/%s-offset(%s)" % (c["fn"], offv)
        if offv is None:
            rep.fail(rid, key, f.loc(line), "%s reads the mail file at %s, which is no variable derived from the file's position" % (c["fn"], show(off)))
            continue
        # definition closure of the offset variable
        seen, work, queried, uses_len = set(), [offv], False, False
        while work:
            v = work.pop()
            if v in seen:
                continue
            seen.add(v)
            for bb, ii, x, ln in cfg.all_elems():
                for l, kind, nn in writes(x):
                    if lv(l) != v:
                        continue
                    rhs = nn.get("init") if kind == "decl" else nn.get("r")
                    if rhs is None:
                        continue
                    rhs = cfg.resolve(rhs)
                    for r in walk(rhs):
                        if r.get("k") == "call" and r.get("fn") == "lseek" and lv(cfg.resolve(r["a"][0])) == infd:
                            queried = True
                        if r.get("k") == "ref" and r.get("dk") == "local":
                            work.append(r["n"])
        if queried:
            rep.ok(rid, key, f.loc(line), "offset %s derives from lseek(%s, ...)" % (offv, infd))
        else:
            rep.fail(rid, key, f.loc(line),
                     "the offset %s at which %s() reads the chunk back from the shared mail file %s does not derive from a position query on that file "
                     "(definitions reach %s): once the other stream has appended to the mail file the wrong bytes are copied to the output file" % (
                         offv, c["fn"], infd, sorted(seen)))
    if n < 1:
        rep.broken_("rule=R13.5 no sendfile/pread of the mail file found in data_cb")


def r13_7(prog, rep):
    """The executor keeps every umask a request can carry and drops only the `unset` code.  The umask field has 10 bits: 0..0777 are requests,
    the all-ones value is `unset` (R05.4).  The condition under which echsx() restores the old umask is evaluated for all 1024 field values."""
    rid = "R13.7"
    from ..rules.encodings import field_width
    f = prog.fn("echsx", "echsx.c")
    cfg = f.cfg
    width = field_width(prog, "umsk")
    mask = (1 << width) - 1
    # the first umask() call installs the request; a later umask() call under a condition on the field undoes it
    sites = call_sites(f, "umask")
    reset = None
    for S in sites:
        for p_ in cfg.lpreds.get(S.b, []):
            c = cfg.cond(p_)
            if c is None:
                continue
            fld = [lv(n) for n in walk(c) if n.get("k") == "mem" and n.get("f") == "umsk"]
            if fld:
                reset = (p_, cfg.blocks[p_].succs.index(S.b), c, fld[0], S)
    if reset is None:
        rep.fail(rid, "echsx/umask-reset", f.loc(), "no conditional reset of the umask depending on the request's umask field found")
        return
    p_, si, c, fld, S = reset
    wrong_reset, wrong_keep = [], []
    for v in range(mask + 1):
        r = eval_in({fld: v}, c, f)
        if r is None:
            rep.broken_("rule=R13.7 cannot evaluate `%s` for %s = %d" % (show(c), fld, v))
            return
        resets = bool(r) == (si == 0)
        if v <= 0o777 and resets:
            wrong_reset.append(v)
        if v == mask and not resets:
            wrong_keep.append(v)
    key = "echsx/umask-honoured"
    if wrong_reset:
        rep.fail(rid, key, f.loc(S.line), "a requested umask of %s is undone by the reset test `%s` (only the unset code 0%o may be): the job runs with "
                 "the executor's inherited umask" % (", ".join("0%o" % v for v in wrong_reset[:4]), show(c), mask))
    elif wrong_keep:
        rep.fail(rid, key, f.loc(S.line), "the unset code 0%o is installed as a umask instead of being ignored" % mask)
    else:
        rep.ok(rid, key, f.loc(S.line), "all 512 requestable umasks are kept, the unset code 0%o is reset (`%s` evaluated for all %d field values)" % (mask, show(c), mask + 1))



def r13_9(prog, rep):
    """sendfile(2) moves *up to* the requested number of bytes (a pipe takes what fits and the call returns short): every call that
    copies a known amount of job output on must sit in a loop that goes on until the count is done — one call loses everything beyond the
    first pipe-full of a mail body or an output file."""
    rid = "R13.9"
    n = 0
    for f in prog.fns_in("echsx.c"):
        if not f.cfg or f.file != "echsx.c":
            continue
        cfg = f.cfg
        loops = cfg.natural_loops()
        # (splice() out of the job's pipe is different: it takes what has arrived, the event loop calls again for more)
        for sname in ("sendfile",):
            for S in call_sites(f, sname):
                n += 1
                key = "%s/%s-in-a-loop#%d" % (f.name, sname, n)
                inl = [h for h, blks in loops.items() if S.b in blks]
                # the loop goes on while something depends on what the call returned: its result is assigned and read in the loop
                res = None
                for b, i, x, line in cfg.all_elems():
                    if isinstance(x, dict):
                        for l, kind, nn in writes(x):
                            rhs = nn.get("init") if kind == "decl" else (nn.get("r") if nn.get("k") == "bin" else None)
                            if rhs is not None and any(q is S.node or (q.get("k") == "call" and q.get("fn") == sname and q.get("line") == S.node.get("line"))
                                                       for q in walk(cfg.resolve(rhs))):
                                res = lv(l)
                if inl:
                    rep.ok(rid, key, f.loc(S.line), "%s() is repeated in a loop (result %s)" % (sname, res or "tested in the loop condition"))
                else:
                    rep.fail(rid, key, f.loc(S.line), "%s() is called once: it returns short when the target is a pipe or the source is still growing, and the rest of "
                             "the job's output (everything beyond about 64 kB of a mail body) is silently dropped" % sname)
    if n < 2:
        rep.broken_("rule=%s expected >=2 sendfile calls in echsx.c, found %d" % (rid, n))


def r13_10(prog, rep):
    """The executor talks to the daemon over its own standard descriptors: the request arrives on stdin, the journal entry (also the
    `not run` report of an occurrence over its limit) leaves on stdout.  Nothing in echsx.c may redirect descriptors 0/1/2 of
    the executor itself (the job's descriptors are set up through posix_spawn file actions, which are not affected)."""
    rid = "R13.10"
    n = 0
    bad = []
    for f in prog.fns_in("echsx.c"):
        if not f.cfg or f.file != "echsx.c":
            continue
        for b, i, c, line in f.all_calls():
            fn = c.get("fn")
            if fn in ("dup2", "dup3") and len(c.get("a", [])) >= 2:
                n += 1
                v = const_eval(f, f.cfg.resolve(c["a"][1]))
                if v in (0, 1, 2):
                    bad.append((f, line, "%s(.., %d)" % (fn, v)))
            elif fn == "close" and c.get("a"):
                n += 1          # examined, not judged: closing stdin on the way out of main() redirects nothing
            elif fn in ("freopen", "daemon"):
                n += 1
                bad.append((f, line, "%s()" % fn))
    key = "echsx/own-standard-descriptors-untouched"
    if bad:
        f, line, what = bad[0]
        rep.fail(rid, key, f.loc(line), "%s in %s() redirects a standard descriptor of the executor itself: the request from the daemon (stdin) or the journal "
                 "entry / `not run` report for it (stdout) goes nowhere" % (what, f.name))
    else:
        rep.ok(rid, key, "src/echsx.c", "%d close/dup2 calls examined, no dup2 onto descriptor 0, 1 or 2" % n)
    if n < 3:
        rep.broken_("rule=%s expected >=3 close/dup2 calls in echsx.c, found %d" % (rid, n))


def run(prog, rep, tier, snap):
    rep.rule("R13.1", "the 20-row routing table of prep_task against the statement", 20)
    rep.call(r13_1, prog, rep)
    rep.rule("R13.2", "privilege and set-up order; single spawn through the requested shell", 8)
    rep.call(r13_2, prog, rep)
    rep.rule("R13.3", "journal lock pairing, status provenance, clean-up", 6)
    rep.call(r13_3, prog, rep)
    rep.rule("R13.8", "with a tee active the mail descriptor is opened for reading back", 1)
    rep.call(r13_8, prog, rep)
    rep.rule("R13.5", "tee offset into the shared mail file derives from the file's own position", 2)
    rep.call(r13_5, prog, rep)
    from ..rules import watch
    rep.rule("R13.4", "child watchers whose callback means 'terminated' are registered for termination only", 1)
    rep.call(watch.child_watchers, prog, rep, "R13.4", "echsx.c")
    rep.rule("R13.7", "every requestable umask is honoured, only the unset code is dropped (whole field domain)", 1)
    rep.call(r13_7, prog, rep)
    from ..rules import spawn
    rep.rule("R13.6", "a failed posix_spawn (positive error number) is not taken for a started process", 2)
    rep.call(spawn.spawn_results, prog, rep, "R13.6", "echsx.c", 2)
    rep.rule("R13.9", "sendfile is repeated until the count is done", 2)
    rep.call(r13_9, prog, rep)
    rep.rule("R13.10", "the executor's own standard descriptors are left alone", 1)
    rep.call(r13_10, prog, rep)
    from ..rules import valist
    rep.rule("R13.11", "the buffered writer of the mail headers reports success only when the text fitted the room it was formatted into (value-fixed walk around the buffer's end; shared with C05/C06)", 1)
    rep.call(valist.r_fits, prog, rep, "R13.11")
READY = True

# texts brought up to date with the rules above (they supersede the first versions at the top of the module)
LEVEL_TEXT = LEVEL_TEXT + (" Also: tee targets are not O_APPEND; sendfile() is repeated until the count is done; the executor leaves its own "
                           "descriptors 0/1/2 alone.")
LEVEL_TEXT = LEVEL_TEXT + " The buffered writer of the mail headers reports success only when the text fitted (walk around the buffer's end, shared with C05/C06)."
