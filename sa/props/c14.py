"""C14 — a job outliving its DTEND/DURATION/DUE limit is killed by the deadline."""
import re

from ..facts import walk, strip, strip_casts, lv, show, writes, calls, int_value, root_var
from ..flow import MustFacts, cond_atoms
from ..q import (Site, call_sites, site_before, forward_scan, backward_scan, const_eval, str_value, edge_start, must_pass_to_exit,
                 elem_has_call)
from ..snapshot import AnalysisBroken

UNITS = None
EXPLANATION = (
    "R14.1 unit flow: values read from echs_idiff_t.d are milliseconds; they may reach alarm()/set_timeout()/a DURATION:PT%dS line only "
    "through a division by 1000; units are inferred over the expression trees and local def-use chains; an object that holds the millisecond count on the way is 64 bits wide. R14.2 writer/reader pairing: every "
    "emission of DURATION is either formatted by idiff_strf (the formatter paired with the reader's idiff_strp) or is a literal format whose "
    "value part is an ISO 8601 duration; DTSTART/DUE/COMPLETED values come from dt_strf_ical. R14.3 deadline path in the executor: both "
    "VTODO kinds reach set_timeout before the spawn, the overdue test dominates arming and refuses, the handler is installed before "
    "alarm(), the handler signals the pid stored by posix_spawn; in make_task DTEND becomes a duration only via echs_instant_diff(till, from).")
NOT_DECIDED = "wall-clock behaviour: alarm delivery, SIGXCPU handling by the job, scheduling jitter; the behaviour itself"
TRUSTED = ["clang 14 parser/CFG builder", "echse-facts extractor", "python rule engines in /verif/sa", "alarm(2)/sigaction(2) semantics"]
LEVEL_TEXT = ("Static verdict on necessary structural clauses of C14 along user file -> echsq -> echsd -> echsx: the limit crosses both "
              "serialisations in a format the next reader parses and in the unit the sink expects (ms vs s), and the executor's deadline "
              "path is wired (arm before spawn, refuse when overdue, handler before alarm, handler kills the spawned pid). It does not decide timing.")
LEVEL_NOTE = "Trusted: clang 14 front end/CFG, extractor, rule engines; alarm/sigaction semantics assumed."
TECHNIQUE = "static analysis: unit inference (ms/s) over typed expression trees and def-use, writer/reader format agreement, dominance on the executor's CFG"

ISO_DUR = re.compile(r"^[+-]?P(?:\d+W|(?:\d+D)?(?:T(?:\d+H)?(?:\d+M)?(?:\d+S)?)?)$")


def _defs(f, name):
    out = []
    for b, i, x, line in f.cfg.all_elems():
        for l, kind, n in writes(x):
            if lv(l) == name:
                rhs = n.get("init") if kind == "decl" else (n.get("r") if n.get("k") == "bin" and n["op"] == "=" else None)
                if rhs is not None:
                    out.append((f.cfg.resolve(rhs), n.get("line", line)))
                elif kind != "decl":
                    out.append((None, n.get("line", line)))
    return out


def unit_of(f, x, depth=0, seen=None):
    """'ms' | 's' | 'bool' | 'none' | 'mixed' for expression x inside function f."""
    seen = seen or set()
    x = strip_casts(x)
    if not isinstance(x, dict) or depth > 12:
        return "none"
    k = x.get("k")
    if k == "mem":
        if x["f"] == "d" and (x.get("rec") in ("echs_idiff_t",) or "idiff" in (x.get("rec") or "")):
            return "ms"
        if x["f"] == "ms":
            return "ms"
        return "none"
    if k == "int":
        return "none"
    if k == "ref":
        if x.get("dk") in ("local", "param") and x["n"] not in seen:
            us = {unit_of(f, d, depth + 1, seen | {x["n"]}) for d, ln in _defs(f, x["n"]) if d is not None}
            us.discard("none")
            if not us:
                return "none"
            if len(us) == 1:
                return us.pop()
            return "mixed"
        return "none"
    if k == "un":
        if x["op"] == "!":
            return "bool"
        return unit_of(f, x["e"], depth + 1, seen)
    if k == "bin":
        op = x["op"]
        l = unit_of(f, x["l"], depth + 1, seen)
        r = unit_of(f, x["r"], depth + 1, seen)
        if op in ("<", "<=", ">", ">=", "==", "!=", "&&", "||"):
            return "bool"
        if op == "/":
            c = int_value(x["r"])
            if l == "ms" and c == 1000:
                return "s"
            if l == "s" and c is not None:
                return "none"
            return l
        if op == "*":
            c = int_value(x["r"]) if int_value(x["r"]) is not None else int_value(x["l"])
            u = l if l != "none" else r
            if u == "s" and c == 1000:
                return "ms"
            return u
        if op == "%":
            return l
        if op in ("+", "-"):
            us = {l, r} - {"none", "bool"}
            if not us:
                return "none"
            if len(us) == 1:
                return us.pop()
            return "mixed"
        if op == ",":
            return r
        if op == "=":
            return r
        return "none"
    if k == "cond":
        us = {unit_of(f, x.get("T") or x["c"], depth + 1, seen), unit_of(f, x["F"], depth + 1, seen)} - {"none"}
        return us.pop() if len(us) == 1 else ("none" if not us else "mixed")
    if k == "call":
        if x.get("fn") in ("echs_instant_to_epoch", "time", "instant_to_tstamp"):
            return "s"
        return "none"
    return "none"


def r14_1(prog, rep):
    rid = "R14.1"
    n = 0
    # sinks in seconds
    sinks = []
    for f in list(prog.fns_in("echsx.c")) + list(prog.fns_in("echsd.c")):
        if not f.cfg:
            continue
        for b, i, c, line in f.all_calls():
            if c.get("fn") in ("alarm", "set_timeout", "sleep"):
                sinks.append((f, c, c["a"][0], "%s/%s(arg)" % (f.name, c["fn"]), line, "s"))
            if c.get("fn") == "fdprintf":
                fmt = str_value(prog, f, c["a"][0]) or ""
                if fmt.startswith("DURATION:") and len(c["a"]) > 1:
                    m = re.search(r"%[0-9]*[du]([A-Z])?", fmt)
                    letter = m.group(1) if m else None
                    want = "s" if letter in (None, "S") else "none"
                    sinks.append((f, c, c["a"][1], "%s/DURATION-line" % f.name, line, want))
    # set_timeout's parameter must flow to alarm unchanged
    if prog.has_fn("set_timeout", "echsx.c"):
        st = prog.fn("set_timeout", "echsx.c")
        al = call_sites(st, "alarm")
        if al and lv(st.cfg.resolve(al[0].node["a"][0])) == st.params[0]["n"]:
            rep.ok(rid, "set_timeout/param-to-alarm", st.loc(al[0].line), "set_timeout(%s) hands its parameter to alarm() unchanged: the parameter is in seconds" % st.params[0]["n"])
        else:
            rep.fail(rid, "set_timeout/param-to-alarm", st.loc(), "set_timeout no longer passes its parameter to alarm()")
    for f, c, arg, key, line, want in sinks:
        n += 1
        u = unit_of(f, f.cfg.resolve(arg))
        if f.name == "set_timeout" and c.get("fn") == "alarm":
            continue
        if u in (want, "none", "bool") and not (want == "s" and u == "ms"):
            rep.ok(rid, key, f.loc(line), "argument %s has unit %s (sink expects seconds)" % (show(arg), u))
        else:
            rep.fail(rid, key, f.loc(line),
                     "a value in %s (from echs_idiff_t.d, milliseconds) reaches a sink that expects seconds without a division by 1000: %s <- %s" % (
                         {"ms": "milliseconds", "mixed": "mixed units"}.get(u, u), show(c)[:80],
                         "; ".join(show(d)[:60] for d, ln in _defs(f, lv(f.cfg.resolve(arg))) if d is not None)),
                     {"unit": u})
    if n < 3:
        rep.broken_("rule=R14.1 expected >=3 second-sinks, found %d" % n)
    # width: the millisecond count of an echs_idiff_t is 64 bits wide; on its way to a seconds sink it is never parked in a narrower object
    nw = 0
    for f in list(prog.fns_in("echsx.c")) + list(prog.fns_in("echsd.c")):
        if not f.cfg:
            continue
        for b, i, x, line in f.cfg.all_elems():
            for l, kind, nn in writes(x):
                rhs = nn.get("init") if kind == "decl" else (nn.get("r") if nn.get("k") == "bin" and nn["op"] == "=" else None)
                if rhs is None:
                    continue
                rhs = f.cfg.resolve(rhs)
                if not any(m.get("k") == "mem" and m["f"] == "d" and "idiff" in (m.get("rec") or "") for m in walk(rhs)) and not any(
                        m.get("k") == "ref" and m.get("dk") == "local" for m in walk(rhs)):
                    continue
                if any(m.get("k") == "mem" and m["f"] == "ms" for m in walk(rhs)):
                    continue
                if unit_of(f, rhs) != "ms":
                    continue
                name = lv(l)
                loc = [v for v in f.locals if v["n"] == name]
                w = (loc[0].get("w") if loc else None) or strip_casts(l).get("w")
                if w is None:
                    continue
                nw += 1
                key = "%s/ms-carrier(%s)" % (f.name, name)
                if w >= 64:
                    rep.ok(rid, key, f.loc(nn.get("line", line)), "%s is %d bits wide" % (name, w))
                else:
                    rep.fail(rid, key, f.loc(nn.get("line", line)),
                             "the 64-bit millisecond count (%s) is parked in the %d-bit object `%s` before it is converted to seconds: limits beyond "
                             "2^31 ms (24.8 days) wrap, the request carries a negative or much too short DURATION" % (show(rhs)[:60], w, name))
    rep.note(rid, "ms-carriers", "src/echsd.c", "%d objects holding a millisecond count examined for width" % nw)


def r14_2(prog, rep):
    rid = "R14.2"
    # reader side: FLD_DURA -> idiff_strp
    sf = prog.fn("snarf_fld", "evical.c")
    dura = prog.enumerator("FLD_DURA")
    reader = None
    for blk in sf.cfg.blocks.values():
        if blk.label and blk.label["k"] == "case" and blk.label.get("lo") == dura:
            for bb in sorted(sf.cfg.reach_from(blk.id) & {b for b in sf.cfg.blocks if sf.cfg.dominates(blk.id, b)}):
                for e in sf.cfg.blocks[bb].elems:
                    for c in calls(e["x"]):
                        if c.get("fn") and c["fn"].endswith("_strp"):
                            reader = reader or c["fn"]
    if reader != "idiff_strp":
        rep.fail(rid, "snarf_fld/FLD_DURA-reader", sf.loc(), "DURATION is read by %s (expected idiff_strp)" % reader)
    else:
        rep.ok(rid, "snarf_fld/FLD_DURA-reader", sf.loc(), "DURATION values are read by idiff_strp")
    n = 0
    for f in prog.all_fns():
        if not f.cfg or f.file.endswith(".h"):
            continue
        for b, i, c, line in f.all_calls():
            if c.get("fn") not in ("fdprintf", "fdwrite"):
                continue
            s = str_value(prog, f, c["a"][0])
            if not s or not s.startswith("DURATION"):
                continue
            n += 1
            key = "%s/DURATION-writer" % f.name
            if c["fn"] == "fdprintf" and ":" in s:
                val = s.split(":", 1)[1].rstrip("\n")
                probe = re.sub(r"%[0-9]*[dui]", "7", val)
                if "%" in probe:
                    rep.fail(rid, key, f.loc(line), "DURATION is printed with format %r which the rule cannot pair with idiff_strp" % s)
                elif ISO_DUR.match(probe):
                    rep.ok(rid, key, f.loc(line), "literal format %r yields an ISO 8601 duration (read by idiff_strp)" % s)
                else:
                    rep.fail(rid, key, f.loc(line),
                             "DURATION is written as %r, i.e. %r: not an ISO 8601 duration, idiff_strp rejects it (no leading P) and the reader never sees a limit" % (s, "DURATION:" + probe))
            else:
                # bare keyword: the value must come from idiff_strf into the buffer written next
                fs = call_sites(f, "idiff_strf")
                nxt = None
                for bb, ii, cc, ln in f.all_calls():
                    if cc.get("fn") == "fdwrite" and (bb == b and ii > i) and nxt is None:
                        nxt = cc
                buf = root_var(nxt["a"][0])["n"] if nxt and root_var(nxt["a"][0]) else None
                if fs and buf and any(root_var(s_.node["a"][0]) and root_var(s_.node["a"][0])["n"] == buf and site_before(f.cfg, s_, Site(b, i, c, line)) for s_ in fs):
                    rep.ok(rid, key, f.loc(line), "value formatted by idiff_strf into %s (paired with idiff_strp)" % buf)
                else:
                    rep.fail(rid, key, f.loc(line), "DURATION keyword is not followed by a buffer formatted with idiff_strf")
    if n < 2:
        rep.broken_("rule=R14.2 expected >=2 DURATION writers, found %d" % n)
    # date-time keywords: value formatter is dt_strf_ical
    for f in prog.all_fns():
        if not f.cfg or f.file.endswith(".h") or f.name not in ("send_task", "send_ev"):
            continue
        uses = call_sites(f, ("dt_strf_ical", "dt_strf"))
        bad = [u for u in uses if u.node["fn"] != "dt_strf_ical"]
        if bad:
            rep.fail(rid, "%s/datetime-formatter" % f.name, f.loc(bad[0].line), "iCalendar date-time written with %s (reader dt_strp expects the ical form)" % bad[0].node["fn"])
        elif uses:
            rep.ok(rid, "%s/datetime-formatter" % f.name, f.loc(uses[0].line), "date-times written with dt_strf_ical (%d sites)" % len(uses))


def r14_3(prog, rep):
    rid = "R14.3"
    ex = prog.fn("echsx", "echsx.c")
    cfg = ex.cfg
    T, D = prog.enumerator("VTOD_TYP_TIMEOUT"), prog.enumerator("VTOD_TYP_DUE")
    sts = call_sites(ex, "set_timeout")
    runs = call_sites(ex, "run_task")
    if len(sts) != 1 or len(runs) != 1:
        rep.fail(rid, "echsx/shape", ex.loc(), "expected one set_timeout and one run_task call, found %d/%d" % (len(sts), len(runs)))
        return
    S, R = sts[0], runs[0]
    # the discriminant: the lvalue whose field is the VTODO kind, as the executor reads it (switch or if-chain alike)
    discr = None
    for b, i, x, line in cfg.all_elems():
        for n in walk(cfg.resolve(x)):
            if n.get("k") == "mem" and n.get("f") == "vtod_typ":
                discr = lv(n)
    if discr is None:
        raise AnalysisBroken("R14.3: echsx() never reads the VTODO kind")
    from ..absw import AbsWalk
    for val, nm in ((T, "TIMEOUT"), (D, "DUE")):
        # with the kind fixed to this value, every feasible path to the spawn passes set_timeout (paths to `fatal` do not spawn)
        unarmed = []

        def effect(b, i, x, store, _un=unarmed):
            if isinstance(x, dict) and x.get("k") == "call":
                if x.get("fn") == "set_timeout":
                    return {"$armed": 1}
                if x.get("fn") == "run_task" and not store.get("$armed"):
                    _un.append(x.get("line"))
            return None
        w = AbsWalk(ex, {discr}, init={discr: val}, effect=effect)
        w.run()
        reached = [st for st in w.exit_stores]
        key = "echsx/case-%s arms before spawn" % nm
        if not reached:
            rep.fail(rid, "echsx/case-%s" % nm, ex.loc(), "no feasible path for VTOD_TYP_%s" % nm)
        elif unarmed:
            rep.fail(rid, key, ex.loc(unarmed[0]), "with %s == VTOD_TYP_%s the spawn can be reached without set_timeout" % (discr, nm))
        else:
            rep.ok(rid, key, ex.loc(S.line), "with %s == VTOD_TYP_%s every feasible path to the spawn passes set_timeout" % (discr, nm))
    # overdue test: now >= due  true edge reaches no spawn; dominates set_timeout on the DUE path
    od = None
    for b in cfg.blocks:
        c = cfg.cond(b)
        if c is None:
            continue
        for a in cond_atoms(c, False):
            if len(a) == 5 and a[0] == "<" and a[1] == "now" and a[2] == "due":
                od = b
    if od is None:
        rep.fail(rid, "echsx/overdue-test", ex.loc(), "no `now >= due` refusal test found")
    else:
        hits, _ = forward_scan(cfg, edge_start(cfg, od, 0), lambda b, i, x: "hit" if elem_has_call(x, ("run_task", "prep_task", "set_timeout")) else None)
        if hits:
            rep.fail(rid, "echsx/overdue-refused", ex.loc(), "an overdue request can still be armed or run")
        else:
            rep.ok(rid, "echsx/overdue-refused", ex.loc(cfg.blocks[od].elems[-1].get("line")), "now >= due bypasses arming and spawn")
    # DUE: timeo = due - now
    ok = False
    for d, ln in _defs(ex, lv(cfg.resolve(S.node["a"][0]))):
        if d is not None and show(strip_casts(d)).replace(" ", "") in ("(due-now)",):
            ok = True
    if ok:
        rep.ok(rid, "echsx/due-minus-now", ex.loc(S.line), "the DUE limit is armed as due - now seconds")
    else:
        rep.fail(rid, "echsx/due-minus-now", ex.loc(S.line), "the DUE limit is no longer armed as due - now")
    # set_timeout: handler installed before alarm; handler signals chld
    st = prog.fn("set_timeout", "echsx.c")
    sa = call_sites(st, "sigaction")
    al = call_sites(st, "alarm")
    if sa and al and site_before(st.cfg, sa[0], al[0]):
        rep.ok(rid, "set_timeout/handler-before-alarm", st.loc(al[0].line), "sigaction(SIGALRM) precedes alarm()")
    else:
        rep.fail(rid, "set_timeout/handler-before-alarm", st.loc(), "alarm() can fire before the handler is installed")
    handler = None
    for b, i, x, line in st.cfg.all_elems():
        for n in walk(st.cfg.resolve(x)):
            if n.get("k") == "ref" and n.get("dk") == "fn" and n["n"] not in ("sigaction", "alarm", "unblock_sig"):
                handler = n["n"]
    if handler and prog.has_fn(handler, "echsx.c"):
        h = prog.fn(handler, "echsx.c")
        ks = call_sites(h, "kill")
        spawn_pid = None
        rt = prog.fn("run_task", "echsx.c")
        for s_ in call_sites(rt, "posix_spawn"):
            spawn_pid = lv(strip_casts(rt.cfg.resolve(s_.node["a"][0])))
        if ks and ("&" + lv(h.cfg.resolve(ks[0].node["a"][0]))) == spawn_pid and const_eval(h, ks[0].node["a"][1]) not in (None, 0):
            rep.ok(rid, "%s/kills-spawned-pid" % handler, h.loc(ks[0].line), "the alarm handler signals %s, the pid stored by posix_spawn" % spawn_pid)
        else:
            rep.fail(rid, "%s/kills-spawned-pid" % handler, h.loc(), "the alarm handler does not signal the pid stored by posix_spawn (%s)" % spawn_pid)
    else:
        rep.fail(rid, "set_timeout/handler", st.loc(), "no signal handler function installed")
    # make_task: DTEND -> duration via echs_instant_diff(till, from); dur/due select the VTODO type
    mt = prog.fn("make_task", "evical.c")
    ok = False
    for b, i, x, line in mt.cfg.all_elems():
        for l, kind, n in writes(x):
            if lv(l).endswith("->dur") and n.get("k") == "bin":
                r = strip_casts(mt.cfg.resolve(n["r"]))
                if r.get("k") == "call" and r.get("fn") == "echs_instant_diff":
                    a0, a1 = lv(r["a"][0]), lv(r["a"][1])
                    ok = a0.endswith("till") and not a1.endswith("till")
                    if not ok:
                        rep.fail(rid, "make_task/dtend-to-duration", mt.loc(n.get("line")), "DTEND becomes echs_instant_diff(%s, %s): operands swapped or wrong" % (a0, a1))
    if ok:
        rep.ok(rid, "make_task/dtend-to-duration", mt.loc(), "DTEND becomes a duration via echs_instant_diff(till, from)")
    # ... of the two ends taken to UTC: the zone's offset is not the same at both ends when a DST switch lies between them
    for b, i, x, line in mt.cfg.all_elems():
        for c in calls(x):
            if c.get("fn") != "echs_instant_diff":
                continue
            for ai, a in enumerate(c["a"][:2]):
                t = lv(strip_casts(mt.cfg.resolve(a)))
                srcs = []
                for bb, ii, xx, ln in mt.cfg.all_elems():
                    for l, kind, nn in writes(xx):
                        if lv(l) == t:
                            rhs = nn.get("init") if kind == "decl" else (nn.get("r") if nn.get("k") == "bin" and nn["op"] == "=" else None)
                            if rhs is not None:
                                r = strip_casts(mt.cfg.resolve(rhs))
                                srcs.append(r.get("fn") if r.get("k") == "call" else show(r))
                key = "make_task/duration-from-utc(%s)" % t
                if srcs and all(s_ == "echs_instant_to_utc" for s_ in srcs):
                    rep.ok(rid, key, mt.loc(c.get("line", line)), "%s is converted to UTC before the difference is taken" % t)
                else:
                    rep.fail(rid, key, mt.loc(c.get("line", line)), "the duration is computed from %s, which is defined by %s and not always by "
                             "echs_instant_to_utc(): local wall-clock ends differ from the real length across a DST switch, the limit is an hour off" % (
                                 t, sorted(set(map(str, srcs))) or "nothing in make_task"))
    typ = {}
    for b, i, x, line in mt.cfg.all_elems():
        for l, kind, n in writes(x):
            if lv(l).endswith("vtod_typ") and n.get("k") == "bin":
                typ[int_value(n["r"])] = (b, i, n.get("line"))
    for val, nm, fld in ((T, "TIMEOUT", "timeout"), (D, "DUE", "due")):
        if val not in typ:
            rep.fail(rid, "make_task/type-%s" % nm, mt.loc(), "make_task never classifies a request as VTOD_TYP_%s" % nm)
            continue
        b, i, ln = typ[val]
        ws = [lv(l) for e in mt.cfg.blocks[b].elems for l, k_, n_ in writes(e["x"])]
        if any(w.endswith("t." + fld) for w in ws):
            rep.ok(rid, "make_task/type-%s" % nm, mt.loc(ln), "VTOD_TYP_%s is set together with t.%s" % (nm, fld))
        else:
            rep.fail(rid, "make_task/type-%s" % nm, mt.loc(ln), "VTOD_TYP_%s is set without storing t.%s" % (nm, fld))


def r14_4(prog, rep):
    """Provenance of the per-run limit in the daemon: the field vtodoify() turns into the request's DURATION is written only from the
    duration of an event taken from the task's stream.  (libev calls the reschedule callback before the task callback of the occurrence
    that is firing, so whatever else is stored there is what the firing occurrence is limited by.)"""
    rid = "R14.4"
    vt = prog.fn("vtodoify", "echsd.c")
    # the field vtodoify reads for the DURATION line
    fld = None
    for b, i, x, line in vt.cfg.all_elems():
        for l, kind, n in writes(x):
            if kind == "decl" and n.get("init") is not None and "idiff" in (n.get("t") or ""):
                ini = strip_casts(vt.cfg.resolve(n["init"]))
                if ini.get("k") == "mem":
                    fld = ini["f"]
    if fld is None:
        # read in place (`t->dur.d / 1000U`) instead of through a copy
        for b, i, x, line in vt.cfg.all_elems():
            for q in walk(vt.cfg.resolve(x)) if isinstance(x, dict) else ():
                if q.get("k") == "mem" and "idiff" in (q.get("t") or "") and "_task_s" in (q.get("rec") or ""):
                    fld = q["f"]
    if fld is None:
        raise AnalysisBroken("R14.4: vtodoify no longer reads the limit from a task field")
    n = 0
    for f in prog.fns_in("echsd.c"):
        if not f.cfg:
            continue
        for b, i, x, line in f.cfg.all_elems():
            for l, kind, nn in writes(f.cfg.resolve(x)):
                l_ = strip_casts(l)
                if not (l_.get("k") == "mem" and l_["f"] == fld and "_task_s" in (l_.get("rec") or "")):
                    continue
                n += 1
                key = "%s/writes-%s#%d" % (f.name, fld, n)
                rhs = strip_casts(nn.get("r")) if nn.get("k") == "bin" and nn["op"] == "=" else None
                if rhs is not None and rhs.get("k") == "mem" and rhs["f"] == "dur" and "event" in (rhs.get("rec") or ""):
                    rep.ok(rid, key, f.loc(nn.get("line", line)), "%s is taken from an occurrence of the stream (%s)" % (lv(l_), show(rhs)))
                else:
                    rep.fail(rid, key, f.loc(nn.get("line", line)),
                             "the limit field %s is written with `%s`, not with the duration of an occurrence: the occurrence that is about to fire "
                             "is handed that value as its DURATION (a nul duration means no limit at all)" % (lv(l_), show(nn)[:60]))
    if n < 1:
        rep.broken_("rule=R14.4 no store to the limit field %s found in echsd.c" % fld)


def _fcalls(f):
    for b, i, x, line in f.cfg.all_elems():
        if isinstance(x, dict):
            for c in calls(x):
                yield c


def r14_5(prog, rep, rid="R14.5"):
    """The deadline reaches the job as a signal (the alarm handler sends it to the spawned pid), and the job inherits the executor's
    signal mask: the spawn has no attributes that would set another one.  The executor blocks that very signal around its own critical
    sections, so on every path to the spawn the last thing done to the mask must be the unblocking — whatever the task asks for (mail
    files, journal, ...).  Walk of the function that spawns, with the mask as a ghost state."""
    from ..absw import AbsWalk
    X = "echsx.c"
    hnd = None
    sig = None
    for f in prog.fns_in(X):
        if not f.cfg:
            continue
        for c in _fcalls(f):
            if c.get("fn") == "kill" and len(c.get("a", ())) == 2:
                v = const_eval(f, strip_casts(c["a"][1]))
                if v is not None and v not in (0, 15, 9):
                    hnd, sig = f, v
    if sig is None:
        raise AnalysisBroken("R14.5: the signal the alarm handler sends to the job was not found")

    def mask_effect(f):
        """'block' / 'unblock' / None for a helper that changes the signal mask."""
        how = None
        adds = set()
        for c in _fcalls(f):
            if c.get("fn") == "sigprocmask" and c.get("a"):
                how = const_eval(f, strip_casts(c["a"][0]))
            if c.get("fn") == "sigaddset" and len(c.get("a", ())) == 2:
                v = const_eval(f, strip_casts(c["a"][1]))
                adds.add(v if v is not None else "?")
            if c.get("fn") == "sigfillset":
                adds.add(sig)
        if how is None:
            return None
        if how == 0 and (sig in adds or "?" in adds):
            return "block"
        if how == 2:
            return "block" if (sig in adds or "?" in adds) else "unblock"
        if how == 1 and (sig in adds):
            return "unblock"
        return None
    eff = {}
    spawners = set()
    for f in prog.fns_in(X):
        if not f.cfg:
            continue
        e = mask_effect(f)
        if e:
            eff[f.name] = e
    # the spawn of the job (the mailer is spawned as well, later, and is not what the limit is about)
    spawners = {prog.fn("run_task", X).name}
    for f in prog.fns_in(X):
        if f.cfg and any((c.get("fn") or "") == "posix_spawnattr_setsigmask" for c in _fcalls(f)):
            raise AnalysisBroken("R14.5: the spawn sets a signal mask of its own (posix_spawnattr_setsigmask): re-read the rule")
    if not spawners:
        raise AnalysisBroken("R14.5: spawner not found")
    n = 0

    def direct(fn_, x, store):
        """Mask operations written out in the walked function itself (`sigemptyset(s); sigprocmask(SIG_SETMASK, s, NULL)`): the sets
        are followed as ghosts (does the set hold the deadline signal?)."""
        nm = x.get("fn") or ""
        a = x.get("a", [])

        def setname(e):
            e = strip_casts(fn_.cfg.resolve(e))
            if e.get("k") == "un" and e["op"] == "&":
                e = strip_casts(e["e"])
            if e.get("k") == "idx":
                e = strip_casts(e["b"])
            return "$set:" + lv(e)
        if nm == "sigemptyset" and a:
            return {setname(a[0]): 0}
        if nm == "sigfillset" and a:
            return {setname(a[0]): 1}
        if nm == "sigaddset" and len(a) == 2:
            v = const_eval(fn_, strip_casts(fn_.cfg.resolve(a[1])))
            if v == sig or v is None:
                return {setname(a[0]): 1}
            return None
        if nm == "sigprocmask" and len(a) >= 2:
            how = const_eval(fn_, strip_casts(fn_.cfg.resolve(a[0])))
            a1 = strip_casts(fn_.cfg.resolve(a[1]))
            if const_eval(fn_, a1) == 0 and not (a1.get("k") in ("ref", "un", "idx")):
                return None     # a NULL set: the mask is only read
            has = store.get(setname(a[1]))
            if how == 2:
                return {"$mask": -1 if has is None else has}
            if how == 0 and has != 0:
                return {"$mask": 1 if has == 1 else -1}
            if how == 1 and has == 1:
                return {"$mask": 0}
        return None
    # a spawner that empties the mask itself in front of posix_spawn() needs nothing from its callers
    rt = prog.fn("run_task", X)
    own = []

    def eff_rt(b, i, x, store):
        if isinstance(x, dict) and x.get("k") == "call":
            nm = x.get("fn") or ""
            if nm in eff:
                return {"$mask": 1 if eff[nm] == "block" else 0}
            if nm in ("posix_spawn", "posix_spawnp"):
                own.append(store.get("$mask"))
            return direct(rt, x, store)
        return None
    AbsWalk(rt, set(), init={"$mask": -1}, effect=eff_rt, max_states=20000).run()
    if own and all(m == 0 for m in own):
        rep.ok(rid, "%s/signal-deliverable-at-the-spawn" % rt.name, rt.loc(), "the mask is emptied inside the spawning function itself")
        return
    for f in prog.fns_in(X):
        if not f.cfg or f.name in spawners:
            continue
        sites = [c for c in _fcalls(f) if c.get("fn") in spawners]
        if not sites:
            continue
        seen = []

        def effect(b, i, x, store, seen=seen, f=f):
            if isinstance(x, dict) and x.get("k") == "call":
                nm = x.get("fn")
                if nm in eff:
                    return {"$mask": 1 if eff[nm] == "block" else 0}
                if nm in spawners:
                    seen.append((store.get("$mask"), x.get("line")))
                return direct(f, x, store)
            return None
        AbsWalk(f, set(), init={"$mask": -1}, effect=effect, max_states=20000).run()
        n += 1
        key = "%s/signal-deliverable-at-the-spawn" % f.name
        badm = sorted({(m, l) for m, l in seen if m != 0}, key=str)
        if not seen:
            raise AnalysisBroken("R14.5: the spawn in %s is not reached by the walk" % f.name)
        if badm:
            m, l = badm[0]
            rep.fail(rid, key, f.loc(l), "the job is spawned on a path on which signal %d — the one the alarm handler %s() sends when the "
                     "limit is over — is %s: the job inherits the mask, the signal stays pending and the job runs to its natural end"
                     % (sig, hnd.name, "still blocked" if m == 1 else "as inherited from the caller (blocked in main)"))
        else:
            rep.ok(rid, key, f.loc(), "on every path to the spawn the mask was last set to empty (signal %d deliverable)" % sig)
    if n < 1:
        rep.broken_("rule=R14.5 no caller of the spawning function found")


def _rec_of(a):
    """Record a member belongs to, looking through anonymous struct/union members."""
    r = a.get("rec") or ""
    b = a.get("b")
    while not r and isinstance(b, dict) and b.get("k") == "mem" and b.get("f") == "":
        r = b.get("rec") or ""
        b = b.get("b")
    return r


def r14_6(prog, rep, rid="R14.6"):
    """The executor turns the task's DUE instant into seconds since the epoch with a routine that reads the date and time fields as they
    are: an instant that still carries a zone tag (`DUE;TZID=...`) must have been converted to UTC by the reader that built the task,
    the way DTSTART and DTEND are.  Every store to a task field that the executor hands to echs_instant_to_epoch() takes its value
    from echs_instant_to_utc()."""
    flds = set()
    for f in prog.fns_in("echsx.c"):
        if not f.cfg:
            continue
        for c in _fcalls(f):
            if c.get("fn") == "echs_instant_to_epoch" and c.get("a"):
                a = strip_casts(f.cfg.resolve(c["a"][0]))
                a = strip_casts(f.expand(a)) if hasattr(f, "expand") else a
                if a.get("k") == "mem" and "task" in _rec_of(a):
                    flds.add(a["f"])
    if not flds:
        raise AnalysisBroken("R14.6: the executor no longer converts a task field with echs_instant_to_epoch()")
    UTC = ("echs_instant_to_utc",)
    n = 0
    for f in prog.fns_in("evical.c"):
        if not f.cfg:
            continue
        for b, i, x, line in f.cfg.all_elems():
            for l, kind, nn in writes(f.cfg.resolve(x)):
                l_ = strip_casts(l)
                if not (l_.get("k") == "mem" and l_["f"] in flds and "task" in _rec_of(l_) and "instant" in (l_.get("t") or "")):
                    continue
                if not (nn.get("k") == "bin" and nn["op"] == "="):
                    continue
                n += 1
                key = "%s/%s-in-utc" % (f.name, l_["f"])
                rhs = strip_casts(f.expand(nn["r"]))
                if rhs.get("k") == "call" and rhs.get("fn") in UTC:
                    rep.ok(rid, key, f.loc(nn.get("line", line)), "%s is stored converted (%s)" % (lv(l_), show(rhs)[:50]))
                elif rhs.get("k") == "call" and rhs.get("fn") in ("echs_nul_instant", "echs_max_instant", "echs_min_instant"):
                    rep.ok(rid, key, f.loc(nn.get("line", line)), "%s is stored as a constant" % lv(l_))
                else:
                    rep.fail(rid, key, f.loc(nn.get("line", line)),
                             "the task's %s is stored as read (`%s`) without echs_instant_to_utc(): with a TZID the executor computes the "
                             "epoch of an instant whose month/day bytes still carry the zone tag, the alarm is set for a time far away "
                             "and the job is never killed" % (l_["f"], show(nn)[:60]))
    if n < 1:
        rep.broken_("rule=R14.6 no store to the executor's instant field(s) %s found in evical.c" % sorted(flds))


def run(prog, rep, tier, snap):
    rep.rule("R14.1", "unit flow ms -> s across echsd's request writer and echsx's alarm", 3)
    rep.call(r14_1, prog, rep)
    rep.rule("R14.2", "writer/reader format pairing of DURATION (and date-time formatters)", 3)
    rep.call(r14_2, prog, rep)
    rep.rule("R14.3", "deadline path: arm before spawn, refuse overdue, handler before alarm, handler kills spawned pid, DTEND->duration", 8)
    rep.call(r14_3, prog, rep)
    from . import c08
    rep.rule("R08.6", "a borrow of a whole time unit is paired with its carry (DTEND - DTSTART; shared with C08)", 1)
    rep.call(c08.r08_6, prog, rep)
    rep.rule("R14.4", "the per-run limit in the daemon is written only from an occurrence's duration", 1)
    rep.call(r14_4, prog, rep)
    rep.rule("R14.5", "the deadline signal is deliverable to the job: the mask is emptied on every path to the spawn", 1)
    rep.call(r14_5, prog, rep)
    rep.rule("R14.6", "an instant the executor turns into an epoch (DUE) is stored in UTC by the reader", 1)
    rep.call(r14_6, prog, rep)
    from . import c18
    rep.rule("R18.8", "the duration reader reads what echsd/echsq write for limits (every grammatical spelling, incl. PnDTnH...; shared with C18)", 1)
    rep.call(c18.r18_8, prog, rep)
READY = True

# texts brought up to date with the rules added in the last rounds
LEVEL_TEXT = LEVEL_TEXT + ' Also: the deadline signal is deliverable at the spawn (signal mask as ghost state on every path); DUE is stored in UTC; the duration reader takes single components far beyond their usual range (what echsd writes for limits over a day).'
TECHNIQUE = (TECHNIQUE if isinstance(TECHNIQUE, str) else TECHNIQUE) + "; ghost-state walk of the executor's signal mask"

