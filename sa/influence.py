"""E3: flow-insensitive influence (data + control dependence) inside one function,
field-sensitive for one designated struct-pointer parameter, extended through
callees by field summaries.  Over-approximates dependence: it can miss a broken
filter but cannot invent a missing one."""
from .facts import walk, strip, strip_casts, lv, show, writes, calls, root_var


def _vname(ref):
    """Locals are keyed by name and declaration id: distinct scopes reuse names like `tmp`."""
    if ref.get("dk") in ("local", "slocal") and ref.get("id") is not None:
        return "%s#%d" % (ref["n"], ref["id"])
    return ref["n"]


def _names(x, rrp):
    """Variable names read in expression x: root variables, plus `rrp->F` for the designated parameter."""
    out = set()

    def rec(n, top=True):
        if not isinstance(n, dict):
            return
        k = n.get("k")
        if k == "mem":
            # chain: find root and first field
            chain = []
            cur = n
            while isinstance(cur, dict) and cur.get("k") in ("mem", "idx", "cast") or (isinstance(cur, dict) and cur.get("k") == "un" and cur["op"] in ("*", "&")):
                if cur.get("k") == "mem":
                    chain.append(cur["f"])
                    cur = cur["b"]
                elif cur.get("k") == "idx":
                    rec(cur["i"])
                    cur = cur["b"]
                elif cur.get("k") == "cast":
                    cur = cur["e"]
                else:
                    cur = cur["e"]
            if isinstance(cur, dict) and cur.get("k") == "ref":
                if cur["n"] == rrp and chain:
                    out.add("%s->%s" % (rrp, chain[-1]))
                else:
                    out.add(_vname(cur))
            else:
                rec(cur)
            return
        if k == "ref":
            if n.get("dk") in ("local", "param", "slocal", "global"):
                out.add(_vname(n))
            return
        from .facts import children
        for c in children(n):
            rec(c)
    rec(x)
    return out


class Influence:
    def __init__(self, prog, fn, rrp, summaries=None, depth=0, opaque_calls=()):
        """opaque_calls: callees whose effect on pointer arguments is ignored (e.g. a delegation that is analysed as its own route)."""
        self.opaque_calls = set(opaque_calls)
        self.prog = prog
        self.fn = fn
        self.cfg = fn.cfg
        self.rrp = rrp
        self.summaries = summaries if summaries is not None else {}
        self.depth = depth
        self._build()

    def _callee_fields(self, name, argpos):
        """Fields of the rr-parameter (at position argpos of callee `name`) that the callee reads."""
        key = (name, argpos)
        if key in self.summaries:
            return self.summaries[key]
        self.summaries[key] = None  # recursion guard -> unknown
        res = None
        fl = self.prog.functions.get(name, [])
        if fl and fl[0].cfg and self.depth < 4 and argpos < len(fl[0].params):
            g = fl[0]
            p = g.params[argpos]["n"]
            fields = set()
            for b, i, x, line in g.cfg.all_elems():
                for nm in _names(x, p):
                    if nm.startswith(p + "->"):
                        fields.add(nm.split("->", 1)[1])
                # passes rr on: recurse
                for c in calls(x):
                    for ai, a in enumerate(c["a"]):
                        a_ = strip_casts(a)
                        if isinstance(a_, dict) and a_.get("k") == "ref" and a_["n"] == p and c.get("fn"):
                            sub = Influence(self.prog, g, p, self.summaries, self.depth + 1)._callee_fields(c["fn"], ai)
                            if sub:
                                fields |= sub
            res = fields
        self.summaries[key] = res
        return res

    def _elem_rw(self, x):
        """(written names, read names) of one CFG element."""
        cfg = self.cfg
        W, R = set(), set()
        wnodes = []
        for l, kind, n in writes(x):
            rv = root_var(l)
            if rv is not None:
                if kind == "decl":
                    W.add("%s#%d" % (rv["n"], n["id"]) if n.get("id") is not None else rv["n"])
                else:
                    W.add(_vname(rv))
            # index expressions and the rhs are reads
            wnodes.append(l)
        # reads: through the references to earlier elements as well (`v = [call element]` reads what the call reads)
        R |= _names(cfg.resolve(x), self.rrp)
        # calls: pointer arguments to non-const parameters are written
        for c in calls(x):
            fl = self.prog.functions.get(c.get("fn") or "", [])
            params = fl[0].params if fl else None
            for ai, a in enumerate(c["a"]):
                a_ = strip_casts(a)
                if not isinstance(a_, dict):
                    continue
                if a_.get("k") == "ref" and a_["n"] == self.rrp and c.get("fn"):
                    fs = self._callee_fields(c["fn"], ai)
                    if fs is None:
                        R.add(self.rrp + "->*")
                    else:
                        R |= {"%s->%s" % (self.rrp, f_) for f_ in fs}
                    continue
                is_ptr = (a_.get("k") == "un" and a_["op"] == "&") or ("*" in (a_.get("t") or "")) or ("[" in (a_.get("t") or ""))
                if not is_ptr:
                    continue
                const = False
                if params and ai < len(params):
                    const = "const" in params[ai]["t"].split("*")[0]
                rv = root_var(a_)
                if rv is not None and not const and rv["n"] != self.rrp:
                    if (c.get("fn") or "") in self.opaque_calls:
                        continue
                    W.add(_vname(rv))
        return W, R

    def _build(self):
        cfg = self.cfg
        self.elems = []   # (b, i, x, W, R)
        for b, i, x, line in cfg.all_elems():
            if not isinstance(x, dict):
                continue
            W, R = self._elem_rw(x)
            self.elems.append((b, i, x, W, R, line))
        # control dependence: block X depends on branch block B if X post-dominates a successor of B but not B itself
        pdom = cfg.pdom()
        self.cdep = {b: set() for b in cfg.blocks}
        for B, blk in cfg.blocks.items():
            succs = blk.live_succs()
            if len(succs) < 2:
                continue
            for S in succs:
                for X in cfg.blocks:
                    if X in pdom.get(S, ()) and (X == B or X not in (pdom.get(B, set()) - {B})):
                        if X != B or True:
                            self.cdep[X].add(B)
        # condition reads per block
        self.cond_reads = {}
        for B in cfg.blocks:
            c = cfg.cond(B)
            rs = set()
            if c is not None:
                rs = _names(c, self.rrp)
                for cc in calls(c):
                    for ai, a in enumerate(cc["a"]):
                        a_ = strip_casts(a)
                        if isinstance(a_, dict) and a_.get("k") == "ref" and a_["n"] == self.rrp and cc.get("fn"):
                            fs = self._callee_fields(cc["fn"], ai)
                            rs |= {"%s->%s" % (self.rrp, f_) for f_ in (fs or ["*"])}
            t = cfg.blocks[B].term
            if t and t.get("kind") == "switch" and t.get("on") is not None:
                rs |= _names(cfg.resolve(t["on"]), self.rrp)
            self.cond_reads[B] = rs

    def slice(self, criterion):
        """criterion: predicate on (b, i, x) selecting the sink elements.  Returns the set of names that influence them."""
        rel = set()
        rel_blocks = set()
        work_blocks = []
        for b, i, x, W, R, line in self.elems:
            if criterion(b, i, x):
                rel |= R
                if b not in rel_blocks:
                    rel_blocks.add(b)
                    work_blocks.append(b)
        changed = True
        while changed:
            changed = False
            # control dependence closure
            while work_blocks:
                X = work_blocks.pop()
                for B in self.cdep.get(X, ()):
                    new = self.cond_reads[B] - rel
                    if new:
                        rel |= new
                        changed = True
                    if B not in rel_blocks:
                        rel_blocks.add(B)
                        work_blocks.append(B)
                        changed = True
            # data dependence
            for b, i, x, W, R, line in self.elems:
                if W & rel:
                    new = R - rel
                    if new:
                        rel |= new
                        changed = True
                    if b not in rel_blocks:
                        rel_blocks.add(b)
                        work_blocks.append(b)
                        changed = True
        return rel
