"""In-memory view of the facts emitted by echse-facts: program, functions,
CFGs, expression helpers, dominators, natural loops."""
import json
import os
from collections import defaultdict

from .snapshot import AnalysisBroken

# ---------------------------------------------------------------------------
# expression helpers


def children(x):
    """Direct sub-expressions of node x (element refs are leaves)."""
    if not isinstance(x, dict):
        return []
    k = x.get("k")
    if k in ("ref", "int", "str", "float", "elem", "zero", "addrlabel", "asm"):
        return []
    if k == "mem":
        return [x["b"]]
    if k == "un" or k == "vaarg":
        return [x["e"]]
    if k == "bin":
        return [x["l"], x["r"]]
    if k == "idx":
        return [x["b"], x["i"]]
    if k == "call":
        out = []
        if x.get("ce") is not None:
            out.append(x["ce"])
        out.extend(a for a in x["a"])
        return out
    if k == "cast":
        return [x["e"]]
    if k == "cond":
        return [c for c in (x["c"], x.get("T"), x["F"]) if c is not None]
    if k == "init":
        return [p[1] for p in x["fs"] if p[1] is not None]
    if k == "sizeof":
        return []
    if k == "stmtexpr":
        return [x["val"]] if x.get("val") is not None else []
    if k == "decl":
        return [d["init"] for d in x["ds"] if d.get("init") is not None]
    if k == "ret":
        return [x["e"]] if x.get("e") is not None else []
    if k == "opaque":
        return list(x.get("ch", []))
    return []


def walk(x):
    """Pre-order walk over x and all sub-expressions."""
    if not isinstance(x, dict):
        return
    stack = [x]
    while stack:
        n = stack.pop()
        if not isinstance(n, dict):
            continue
        yield n
        stack.extend(reversed(children(n)))


def strip(x):
    """Remove wrappers that do not change the truth value / identity:
    __builtin_expect, integral/boolean casts, `!= 0`, `!!`, comma with
    constant lhs."""
    while isinstance(x, dict):
        k = x.get("k")
        if k == "call" and x.get("fn") == "__builtin_expect":
            x = x["a"][0]
            continue
        if k == "cast" and x.get("ck") in ("IntegralCast", "IntegralToBoolean", "PointerToBoolean", "NoOp",
                                           "BitCast", "LValueToRValue"):
            x = x["e"]
            continue
        if k == "bin" and x["op"] == "!=" and is_int(x["r"], 0):
            x = x["l"]
            continue
        if k == "un" and x["op"] == "!" and isinstance(x["e"], dict) and x["e"].get("k") == "un" and x["e"]["op"] == "!":
            x = x["e"]["e"]
            continue
        break
    return x


def strip_casts(x):
    while isinstance(x, dict) and x.get("k") == "cast":
        x = x["e"]
    return x


def is_int(x, v=None):
    x = strip_casts(x)
    if isinstance(x, dict) and x.get("k") in ("int", "sizeof") and "v" in x:
        return v is None or x["v"] == v
    if isinstance(x, dict) and x.get("k") == "ref" and x.get("dk") == "enum":
        return v is None or x.get("v") == v
    return False


def int_value(x):
    x = strip_casts(x)
    if isinstance(x, dict):
        if x.get("k") in ("int", "sizeof") and "v" in x:
            v = x["v"]
            return int(v) if not isinstance(v, int) else v
        if x.get("k") == "ref" and x.get("dk") == "enum":
            return x.get("v")
        if x.get("k") == "un" and x["op"] == "-":
            v = int_value(x["e"])
            return None if v is None else -v
    return None


def lv(x):
    """Canonical text of an lvalue / access path: `res`, `tgt[res]`,
    `this->rdi`, `rr->count`, `*iter`.  Casts are dropped."""
    x = strip_casts(x)
    if not isinstance(x, dict):
        return "?"
    k = x.get("k")
    if k == "ref":
        return x["n"]
    if k == "mem":
        if not x["f"]:
            return lv(x["b"])  # anonymous struct/union member
        return lv(x["b"]) + ("->" if x["arrow"] else ".") + x["f"]
    if k == "idx":
        return lv(x["b"]) + "[" + show(x["i"]) + "]"
    if k == "un" and x["op"] == "*":
        return "*" + lv(x["e"])
    if k == "un" and x["op"] == "&":
        return "&" + lv(x["e"])
    return show(x)


def step_of(kind, n):
    """+1 / -1 when the write (kind, node) as yielded by writes() moves its target by one (x++, ++x, x += 1, x = x + 1; likewise down),
    else None."""
    if kind == "incdec":
        return 1 if "++" in n["op"] else -1
    if n.get("k") == "bin" and n["op"] in ("+=", "-=") and int_value(strip_casts(n["r"])) == 1:
        return 1 if n["op"] == "+=" else -1
    if n.get("k") == "bin" and n["op"] == "=":
        r = strip_casts(n["r"])
        if r.get("k") == "bin" and r["op"] in ("+", "-") and lv(strip_casts(r["l"])) == lv(n["l"]) and int_value(strip_casts(r["r"])) == 1:
            return 1 if r["op"] == "+" else -1
    return None


def root_var(x):
    """The variable at the root of an access path, or None."""
    x = strip_casts(x)
    while isinstance(x, dict):
        k = x.get("k")
        if k == "ref":
            return x
        if k == "mem":
            x = strip_casts(x["b"])
        elif k == "idx":
            x = strip_casts(x["b"])
        elif k == "un" and x["op"] in ("*", "&"):
            x = strip_casts(x["e"])
        elif k == "bin" and x["op"] in ("+", "-"):
            x = strip_casts(x["l"])
        else:
            return None
    return None


def show(x, depth=0):
    """Compact C-like rendering for reports."""
    if x is None:
        return "<null>"
    if not isinstance(x, dict):
        return str(x)
    if depth > 12:
        return "..."
    k = x.get("k")
    d = depth + 1
    if k == "ref":
        return x["n"]
    if k == "int":
        return str(x["v"])
    if k == "float":
        return str(x["v"])
    if k == "str":
        return json.dumps(x["v"])
    if k == "mem":
        if not x["f"]:
            return show(x["b"], d)
        return show(x["b"], d) + ("->" if x["arrow"] else ".") + x["f"]
    if k == "un":
        op = x["op"]
        if op.startswith("post"):
            return show(x["e"], d) + op[4:]
        if op.startswith("pre"):
            return op[3:] + show(x["e"], d)
        return op + show(x["e"], d)
    if k == "bin":
        return "(" + show(x["l"], d) + " " + x["op"] + " " + show(x["r"], d) + ")"
    if k == "idx":
        return show(x["b"], d) + "[" + show(x["i"], d) + "]"
    if k == "call":
        fn = x.get("fn") or ("(*" + show(x.get("ce"), d) + ")")
        return fn + "(" + ", ".join(show(a, d) for a in x["a"]) + ")"
    if k == "cast":
        if x.get("impl"):
            return show(x["e"], d)
        return "(" + x["to"].get("t", "?") + ")" + show(x["e"], d)
    if k == "cond":
        if x.get("T") is None:
            return "(" + show(x["c"], d) + " ?: " + show(x["F"], d) + ")"
        return "(" + show(x["c"], d) + " ? " + show(x["T"], d) + " : " + show(x["F"], d) + ")"
    if k == "init":
        return "{" + ", ".join("." + str(p[0]) + "=" + show(p[1], d) for p in x["fs"] if p[1] is not None) + "}"
    if k == "sizeof":
        return "sizeof(%s)=%s" % (x.get("of"), x.get("v"))
    if k == "elem":
        return "[B%d.%d]" % (x["b"], x["i"])
    if k == "decl":
        return "; ".join("%s %s%s" % (dd.get("t", ""), dd["n"], (" = " + show(dd["init"], d)) if dd.get("init") is not None else "")
                         for dd in x["ds"])
    if k == "ret":
        return "return " + (show(x["e"], d) if x.get("e") is not None else "")
    if k == "stmtexpr":
        return "({...; %s})" % show(x.get("val"), d)
    if k == "zero":
        return "{0}"
    if k == "opaque":
        return "<%s>" % x.get("cls")
    return "<%s>" % k


def init_to_py(x):
    """Convert an initialiser expression tree (or an evaluated `values`
    object) into plain python: ints, strings, lists, dicts."""
    if x is None:
        return None
    if isinstance(x, (int, float, str)):
        return x
    if isinstance(x, list):
        return [init_to_py(i) for i in x]
    if not isinstance(x, dict):
        return None
    if "k" not in x:
        if set(x) == {"str"}:
            return x["str"]
        if set(x) == {"fn"} or set(x) == {"var"}:
            return x
        return {k: init_to_py(v) for k, v in x.items()}
    x = strip_casts(x)
    k = x.get("k")
    if k == "str":
        return x["v"]
    v = int_value(x)
    if v is not None:
        return v
    if k == "init":
        names = [p[0] for p in x["fs"]]
        if all(isinstance(n, int) for n in names):
            return [init_to_py(p[1]) for p in x["fs"]]
        return {p[0]: init_to_py(p[1]) for p in x["fs"]}
    if k == "ref" and x.get("dk") == "fn":
        return {"fn": x["n"]}
    if k == "ref":
        return {"var": x["n"]}
    if k == "un" and x["op"] == "&":
        return init_to_py(x["e"])
    if k == "zero":
        return 0
    return None


def table_py(t):
    if t.get("values") is not None:
        return init_to_py(t["values"])
    return init_to_py(t.get("init"))


ASSIGN_OPS = {"=", "+=", "-=", "*=", "/=", "%=", "<<=", ">>=", "&=", "|=", "^="}


def writes(x):
    """Yield (lvalue_expr, kind, node) for every modification syntactically in x:
    kind is 'assign', 'compound', 'incdec'."""
    for n in walk(x):
        k = n.get("k")
        if k == "bin" and n["op"] in ASSIGN_OPS:
            # a step by one is one idiom however it is spelt: x += 1 and x = x + 1 are reported like ++x
            st = None
            if n["op"] in ("+=", "-=") and int_value(strip_casts(n["r"])) == 1:
                st = "pre++" if n["op"] == "+=" else "pre--"
            elif n["op"] == "=":
                r = strip_casts(n["r"])
                if isinstance(r, dict) and r.get("k") == "bin" and r["op"] in ("+", "-") and int_value(strip_casts(r["r"])) == 1 \
                        and lv(strip_casts(r["l"])) and lv(strip_casts(r["l"])) == lv(strip_casts(n["l"])):
                    st = "pre++" if r["op"] == "+" else "pre--"
            if st:
                yield (strip_casts(n["l"]), "incdec", {"k": "un", "op": st, "e": n["l"], "line": n.get("line"), "t": n.get("t"), "w": n.get("w"), "s": n.get("s"), "spelt": n})
                continue
            yield (strip_casts(n["l"]), "assign" if n["op"] == "=" else "compound", n)
        elif k == "un" and n["op"] in ("post++", "post--", "pre++", "pre--"):
            yield (strip_casts(n["e"]), "incdec", n)
        elif k == "decl":
            for d in n["ds"]:
                if d.get("n"):
                    yield ({"k": "ref", "n": d["n"], "id": d.get("id"), "dk": "local", "t": d.get("t", "")}, "decl", d)


def calls(x):
    for n in walk(x):
        if n.get("k") == "call":
            yield n


def addr_taken(x):
    """Yield lvalue expressions whose address is passed to a call in x."""
    for c in calls(x):
        for a in c["a"]:
            a = strip_casts(a)
            if isinstance(a, dict) and a.get("k") == "un" and a["op"] == "&":
                yield strip_casts(a["e"])


def refs(x):
    for n in walk(x):
        if n.get("k") == "ref":
            yield n


# ---------------------------------------------------------------------------
# spelling normalisation: E1[E2] is *((E1)+(E2)) by definition, so the rules see one spelling


def _type_of(x):
    if not isinstance(x, dict):
        return ""
    if x.get("k") == "cast":
        return (x.get("to") or {}).get("t", "")
    return x.get("t") or ""


def _is_ptr(x):
    t = _type_of(x)
    t = t.replace("__restrict", "").replace("restrict", "").replace("const", "").replace("volatile", "").strip()
    return t.endswith("*") or t.endswith("]")


def _ptr_sum(x):
    """(pointer, index) when x is `p + i` / `i + p` (through value-preserving casts), else None."""
    y = x
    while isinstance(y, dict) and y.get("k") == "cast" and y.get("ck") in ("LValueToRValue", "NoOp", None):
        y = y["e"]
    if isinstance(y, dict) and y.get("k") == "bin" and y["op"] == "+":
        if _is_ptr(y["l"]) and not _is_ptr(y["r"]):
            return y["l"], y["r"]
        if _is_ptr(y["r"]) and not _is_ptr(y["l"]):
            return y["r"], y["l"]
    return None


def normalise(x):
    """`*(p + i)` -> `p[i]`, `(p + i)->f` -> `p[i].f`, `&p[i]` -> `p + i`, `&*p` -> `p`, `(*p).f` -> `p->f`."""
    if isinstance(x, list):
        return [normalise(v) for v in x]
    if not isinstance(x, dict):
        return x
    x = {k: (normalise(v) if isinstance(v, (dict, list)) else v) for k, v in x.items()}
    k = x.get("k")
    if k == "un" and x.get("op") == "*":
        ps = _ptr_sum(x["e"])
        if ps:
            return {"k": "idx", "b": ps[0], "i": ps[1], "t": x.get("t"), "line": x.get("line")}
        e = x["e"]
        while isinstance(e, dict) and e.get("k") == "cast" and e.get("ck") in ("LValueToRValue", "NoOp", None):
            e = e["e"]
        if isinstance(e, dict) and e.get("k") == "un" and e.get("op") == "&":
            return e["e"]
    elif k == "mem" and x.get("arrow"):
        ps = _ptr_sum(x["b"])
        if ps:
            y = dict(x)
            y["arrow"] = False
            y["b"] = {"k": "idx", "b": ps[0], "i": ps[1], "t": x.get("rec") or "", "line": x.get("line")}
            return y
    elif k == "mem" and not x.get("arrow"):
        b = x["b"]
        if isinstance(b, dict) and b.get("k") == "un" and b.get("op") == "*":      # the operand of * is a pointer, whatever its typedef is called
            y = dict(x)
            y["arrow"] = True
            y["b"] = b["e"]
            return y
    elif k == "bin" and x.get("op") in ("+", "*", "&", "|", "^") and int_value(x["l"]) is not None and int_value(x["r"]) is None \
            and not _is_ptr(x["r"]) and not _is_ptr(x["l"]):
        # commutative with a constant operand: the constant goes to the right (`1U + x` is `x + 1U`)
        y = dict(x)
        y["l"], y["r"] = x["r"], x["l"]
        return y
    elif k == "un" and x.get("op") == "&":
        e = x["e"]
        if isinstance(e, dict) and e.get("k") == "idx" and _is_ptr(e["b"]) and not _type_of(e["b"]).rstrip().endswith("]"):
            return {"k": "bin", "op": "+", "l": e["b"], "r": e["i"], "t": x.get("t"), "line": e.get("line")}
        if isinstance(e, dict) and e.get("k") == "un" and e.get("op") == "*":
            return e["e"]
    return x


class Block:
    __slots__ = ("id", "succs", "dead", "preds", "elems", "term", "label", "looptarget", "noreturn", "raw")

    def __init__(self, raw):
        self.raw = raw
        self.id = raw["id"]
        self.succs = raw["succs"]
        self.dead = set(raw.get("dead", []))
        self.preds = raw["preds"]
        self.elems = [dict(e, x=normalise(e["x"])) for e in raw["elems"]]
        self.term = normalise(raw.get("term"))
        self.label = raw.get("label")
        self.looptarget = raw.get("looptarget")
        self.noreturn = raw.get("noreturn", False)

    def live_succs(self):
        return [s for i, s in enumerate(self.succs) if s is not None and i not in self.dead]

    def all_succs(self):
        return [s for s in self.succs if s is not None]


class CFG:
    def __init__(self, fn, raw):
        self.fn = fn
        self.entry = raw["entry"]
        self.exit = raw["exit"]
        self.blocks = {b["id"]: Block(b) for b in raw["blocks"]}
        self._dom = None
        self._pdom = None
        self.one_trip = []
        self._rewire_one_trip()
        # live predecessor lists
        self.lpreds = defaultdict(list)
        for b in self.blocks.values():
            for s in b.live_succs():
                self.lpreds[s].append(b.id)
        self._reach = None

    def _rewire_one_trip(self):
        """nifty.h's with()/if_with() expand to `for (decl, *__epN = (void*)1; __epN [&& cond]; __epN = 0)`:
        a block that runs exactly once.  The test block's false edge is dead on entry (the guard is 1) and
        the increment block leaves the construct (the guard is 0), so the construct is not a loop.  The guard is recognised by its
        shape, not its name: a variable whose only definitions are a non-zero constant initialiser and assignments of 0."""
        defs = {}
        for b2 in self.blocks.values():
            for e in b2.elems:
                x = e["x"]
                if not isinstance(x, dict):
                    continue
                for l, kind, n in writes(x):
                    l_ = strip_casts(l)
                    if l_.get("k") != "ref":
                        continue
                    if kind == "decl":
                        v = int_value(n["init"]) if n.get("init") is not None else None
                        defs.setdefault(l_["n"], []).append(("init", v, b2))
                    elif kind == "assign" and n.get("k") == "bin" and n["op"] == "=" and is_int(n["r"], 0):
                        defs.setdefault(l_["n"], []).append(("zero", 0, b2))
                    else:
                        defs.setdefault(l_["n"], []).append(("other", None, b2))
                for l in addr_taken(x):
                    l_ = strip_casts(l)
                    if l_.get("k") == "ref":
                        defs.setdefault(l_["n"], []).append(("other", None, b2))
        for blk in self.blocks.values():
            if len(blk.succs) != 2 or not blk.elems:
                continue
            last = blk.elems[-1]["x"]
            if not (isinstance(last, dict) and last.get("k") == "ref" and last.get("dk") == "local"):
                continue
            guard = last["n"]
            ds = defs.get(guard, [])
            if not ds or any(k == "other" for k, v, b2 in ds) or sum(1 for k, v, b2 in ds if k == "init") != 1 \
                    or not any(k == "init" and v not in (None, 0) for k, v, b2 in ds):
                continue
            out = blk.succs[1]
            if out is None:
                continue
            incs = [b2 for k, v, b2 in ds if k == "zero"]
            if not incs:
                continue
            blk.dead.add(1)
            for b2 in incs:
                b2.succs = [out if s_ == blk.id else s_ for s_ in b2.succs]
            self.one_trip.append((blk.id, guard))

    # -- element access ---------------------------------------------------
    def elem(self, b, i):
        return self.blocks[b].elems[i]["x"]

    def resolve(self, x, depth=0):
        """Return x with element references replaced by the referenced trees."""
        if not isinstance(x, dict) or depth > 40:
            return x
        if x.get("k") == "elem":
            return self.resolve(self.elem(x["b"], x["i"]), depth + 1)
        out = {}
        for key, v in x.items():
            if isinstance(v, dict):
                out[key] = self.resolve(v, depth + 1)
            elif isinstance(v, list):
                nl = []
                for it in v:
                    if isinstance(it, dict):
                        nl.append(self.resolve(it, depth + 1))
                    elif isinstance(it, list):
                        nl.append([self.resolve(j, depth + 1) if isinstance(j, dict) else j for j in it])
                    else:
                        nl.append(it)
                out[key] = nl
            else:
                out[key] = v
        return out

    def top_elems(self, b):
        """Elements of block b that are not sub-expressions of a later element
        of the same block: [(index, expr, line)]."""
        blk = self.blocks[b]
        used = set()
        for e in blk.elems:
            for n in walk(e["x"]):
                if n.get("k") == "elem" and n["b"] == b:
                    used.add(n["i"])
        t = blk.term
        if t and isinstance(t.get("on"), dict):
            for n in walk(t["on"]):
                if n.get("k") == "elem" and n["b"] == b:
                    used.add(n["i"])
        return [(i, e["x"], e.get("line")) for i, e in enumerate(blk.elems) if i not in used]

    def all_elems(self):
        for b in self.blocks.values():
            for i, e in enumerate(b.elems):
                yield b.id, i, e["x"], e.get("line")

    def cond(self, b):
        """Branch condition of block b (resolved), or None."""
        blk = self.blocks[b]
        if len(blk.succs) != 2 or not blk.elems:
            return None
        if blk.term is None:
            return None
        if blk.term["kind"] in ("switch", "goto", "break", "continue"):
            return None
        return self.resolve(blk.elems[-1]["x"])

    # -- graph algorithms -------------------------------------------------
    def reachable(self):
        if self._reach is None:
            seen = {self.entry}
            st = [self.entry]
            while st:
                n = st.pop()
                for s in self.blocks[n].live_succs():
                    if s not in seen:
                        seen.add(s)
                        st.append(s)
            self._reach = seen
        return self._reach

    def _domtree(self, root, succ, pred):
        # iterative dominator sets (CFGs are small)
        nodes = set()
        st = [root]
        while st:
            n = st.pop()
            if n in nodes:
                continue
            nodes.add(n)
            st.extend(succ(n))
        dom = {n: set(nodes) for n in nodes}
        dom[root] = {root}
        changed = True
        order = sorted(nodes)
        while changed:
            changed = False
            for n in order:
                if n == root:
                    continue
                ps = [p for p in pred(n) if p in nodes]
                if not ps:
                    new = {n}
                else:
                    new = set.intersection(*(dom[p] for p in ps)) | {n}
                if new != dom[n]:
                    dom[n] = new
                    changed = True
        return dom

    def dom(self):
        if self._dom is None:
            self._dom = self._domtree(self.entry, lambda n: self.blocks[n].live_succs(), lambda n: self.lpreds[n])
        return self._dom

    def pdom(self):
        """Post-dominators w.r.t. the exit block, over live edges (noreturn
        blocks have an edge to exit in clang's CFG)."""
        if self._pdom is None:
            self._pdom = self._domtree(self.exit, lambda n: self.lpreds[n], lambda n: self.blocks[n].live_succs())
        return self._pdom

    def dominates(self, a, b):
        d = self.dom()
        return b in d and a in d[b]

    def back_edges(self):
        d = self.dom()
        out = []
        for b in self.reachable():
            for s in self.blocks[b].live_succs():
                if s in d.get(b, ()):
                    out.append((b, s))
        return out

    def natural_loops(self):
        """{header: set(blocks)} merging back edges with a common header."""
        loops = {}
        for tail, head in self.back_edges():
            body = loops.setdefault(head, {head})
            st = [tail]
            while st:
                n = st.pop()
                if n in body:
                    continue
                body.add(n)
                st.extend(self.lpreds[n])
        return loops

    def paths_avoiding(self, src, dst, avoid):
        """True if there is a live path src ->* dst that passes through no block in `avoid`
        (src and dst themselves may be in avoid only if equal to src/dst is excluded by caller)."""
        seen = set()
        st = [src]
        while st:
            n = st.pop()
            if n == dst:
                return True
            if n in seen:
                continue
            seen.add(n)
            for s in self.blocks[n].live_succs():
                if s not in avoid or s == dst:
                    st.append(s)
        return False

    def reach_from(self, src, avoid=()):
        seen = set()
        st = [src]
        while st:
            n = st.pop()
            if n in seen or n in avoid:
                continue
            seen.add(n)
            st.extend(self.blocks[n].live_succs())
        return seen


class Function:
    def __init__(self, raw, unit):
        self.raw = raw
        self.unit = unit
        self.name = raw["name"]
        self.file = raw["file"]
        self.line = raw["line"]
        self.endline = raw["endline"]
        self.static = raw["static"]
        self.params = raw["params"]
        self.locals = raw["locals"]
        self.ret = raw["ret"]
        self.cfg = CFG(self, raw["cfg"]) if raw.get("cfg") else None

    def loc(self, line=None):
        return "src/%s:%s" % (self.file, line if line is not None else self.line)

    def single_defs(self):
        """name -> initialiser of the locals that are defined exactly once, by their declaration, with a call-free initialiser
        (temporaries a maintainer introduces for a sub-expression)."""
        if getattr(self, "_sdefs", None) is None:
            ndef = {}
            init = {}
            for b, i, x, line in self.cfg.all_elems():
                if not isinstance(x, dict):
                    continue
                for l, kind, n in writes(x):
                    t = lv(l)
                    if kind == "decl" and n.get("init") is None:
                        continue    # declared now, defined later
                    ndef[t] = ndef.get(t, 0) + 1
                    if kind == "decl":
                        init[t] = self.cfg.resolve(n["init"])
                    elif kind == "assign" and n.get("k") == "bin" and n["op"] == "=" and strip_casts(n["l"]).get("k") == "ref":
                        init[t] = self.cfg.resolve(n["r"])
                for l in addr_taken(x):
                    ndef[lv(l)] = ndef.get(lv(l), 0) + 2
            arrays = {l["n"] for l in self.locals if "[" in (l.get("t") or "")}
            self._sdefs = {t: e for t, e in init.items() if ndef.get(t) == 1 and t not in arrays and not any(True for _ in calls(e))
                           and strip_casts(e).get("k") not in ("init", "str")}
        return self._sdefs

    def stable_defs(self):
        """single_defs() whose initialiser reads only objects that nothing in the function writes (so the temporary equals the expression
        at every later point, not only where it was taken)."""
        if getattr(self, "_stdefs", None) is None:
            written = set()
            for b, i, x, line in self.cfg.all_elems():
                if not isinstance(x, dict):
                    continue
                for l, kind, n in writes(x):
                    if kind != "decl":
                        written.add(lv(l))
                for l in addr_taken(x):
                    written.add(lv(l))
            out = {}
            for name, e in self.single_defs().items():
                leaves = [lv(n) for n in walk(e) if n.get("k") in ("ref", "mem", "idx") and not (n.get("k") == "ref" and n.get("dk") in ("enum", "fn"))]
                if not any(t == w or t.startswith(w + ".") or t.startswith(w + "->") or t.startswith(w + "[") or w.startswith(t + ".")
                           for t in leaves for w in written):
                    out[name] = e
            self._stdefs = out
        return self._stdefs

    def expand(self, x, depth=4):
        """x with references to single-definition temporaries replaced by their initialisers (copy propagation for matching)."""
        sd = self.single_defs()

        def rec(n, d):
            if isinstance(n, dict):
                if n.get("k") == "ref" and n.get("dk") == "local" and n.get("n") in sd and d > 0:
                    return rec(sd[n["n"]], d - 1)
                if n.get("k") == "elem":
                    return rec(self.cfg.resolve(n), d)
                return {k: rec(v, d) for k, v in n.items()}
            if isinstance(n, list):
                return [rec(v, d) for v in n]
            return n
        return rec(x, depth)

    def __repr__(self):
        return "<fn %s %s:%d>" % (self.name, self.file, self.line)

    def all_calls(self):
        """Yield (block, idx, callnode, line) for every call in the function
        (each call once: calls are CFG elements of their own)."""
        seen = set()
        for b, i, x, line in self.cfg.all_elems():
            for n in walk(x):
                if n.get("k") == "call":
                    key = (n.get("fn"), n.get("line"), show(n))
                    # a call node appears exactly once as its own element; nested
                    # appearances are element refs, so no dedup is needed
                    yield b, i, n, n.get("line", line)


class Program:
    def __init__(self, docs):
        self.docs = docs
        # a known helper that is gone while an unknown one with its exact signature has appeared is that helper renamed (sa/rename.py)
        self.renamed = []
        if not os.environ.get("ECHSE_NO_INLINE"):
            from .inline import known_functions as _kf
            from .rename import resolve_renames, byvalue_scalars
            self.renamed = resolve_renames(docs, _kf())
            self.byvalue = byvalue_scalars(docs)
            from .rename import restore_param_conventions
            self.conventions = restore_param_conventions(docs, _kf())
        self.units = {os.path.basename(d["unit"]): d for d in docs}
        self.functions = defaultdict(list)
        seen = set()
        for d in docs:
            u = os.path.basename(d["unit"])
            for f in d["functions"]:
                key = (f["name"], f["file"], f["line"])
                if key in seen:
                    continue
                seen.add(key)
                self.functions[f["name"]].append(Function(f, u))
        self.records = {}
        self.enums = {}
        self.tables = defaultdict(list)
        self.macros = defaultdict(list)
        self.typedefs = {}
        tseen = set()
        for d in docs:
            for r in d["records"]:
                self.records.setdefault((r["name"], r["file"]), r)
            for e in d["enums"]:
                self.enums.setdefault((e["name"], e["file"], e["line"]), e)
            for t in d["tables"]:
                key = (t["name"], t["file"], t["line"])
                if key not in tseen:
                    tseen.add(key)
                    self.tables[t["name"]].append(t)
            for m in d["macros"]:
                key = (m["name"], m["file"], m["line"])
                if key not in tseen:
                    tseen.add(key)
                    self.macros[m["name"]].append(m)
            for t in d["typedefs"]:
                self.typedefs.setdefault(t["name"], t)
        # helpers the rule set has never seen are analysed inside their callers (sa/inline.py)
        self.inlined_helpers = []
        from .inline import known_functions, inline_unknown
        kn = known_functions()
        if kn is not None and not os.environ.get("ECHSE_NO_INLINE"):
            inline_unknown(self, kn)

    @classmethod
    def load(cls, paths):
        docs = []
        for p in paths:
            with open(p) as f:
                d = json.load(f)
            if d.get("errors", 0):
                raise AnalysisBroken("unit %s has %d clang errors" % (d.get("unit"), d["errors"]))
            docs.append(d)
        return cls(docs)

    def fn(self, name, file=None):
        c = [f for f in self.functions.get(name, []) if file is None or f.file == file]
        if not c:
            raise AnalysisBroken("anchor function %s%s not found" % (name, " in " + file if file else ""))
        if len(c) > 1:
            raise AnalysisBroken("anchor function %s is ambiguous: %s" % (name, c))
        return c[0]

    def has_fn(self, name, file=None):
        return any(file is None or f.file == file for f in self.functions.get(name, []))

    def fns_in(self, file):
        out = []
        for fl in self.functions.values():
            for f in fl:
                if f.file == file:
                    out.append(f)
        return sorted(out, key=lambda f: f.line)

    def all_fns(self):
        for fl in self.functions.values():
            for f in fl:
                yield f

    def record(self, name, file=None):
        c = [r for (n, f), r in self.records.items() if n == name and (file is None or f == file)]
        if not c:
            raise AnalysisBroken("record %s not found" % name)
        return c[0]

    def enum(self, name=None, having=None):
        for (n, f, l), e in self.enums.items():
            if name is not None and n == name:
                return e
            if having is not None and any(en[0] == having for en in e["enumerators"]):
                return e
        raise AnalysisBroken("enum %s not found" % (name or having))

    def enumerator(self, name):
        for e in self.enums.values():
            for n, v in e["enumerators"]:
                if n == name:
                    return v
        raise AnalysisBroken("enumerator %s not found" % name)

    def table(self, name, file=None, scope=None):
        c = [t for t in self.tables.get(name, []) if (file is None or t["file"] == file) and (scope is None or t["scope"] == scope)]
        if not c:
            raise AnalysisBroken("table %s%s not found" % (name, " in " + file if file else ""))
        if len(c) > 1:
            raise AnalysisBroken("table %s ambiguous (%s)" % (name, [(t["file"], t["scope"]) for t in c]))
        return c[0]

    def macro(self, name, file=None):
        c = [m for m in self.macros.get(name, []) if file is None or m["file"] == file]
        if not c:
            raise AnalysisBroken("macro %s not found" % name)
        return c[-1]

    def macro_int(self, name, file=None, depth=0):
        """Evaluate an object-like macro to an integer (simple arithmetic over
        literals and other macros)."""
        import re
        m = self.macro(name, file)
        text = m["text"]
        if depth > 8:
            raise AnalysisBroken("macro %s too deep" % name)

        def sub(mo):
            w = mo.group(0)
            if re.fullmatch(r"0[xX][0-9a-fA-F]+[uUlL]*", w):
                return str(int(re.sub(r"[uUlL]+$", "", w), 16))
            if re.fullmatch(r"0[bB][01]+[uUlL]*", w):
                return str(int(re.sub(r"[uUlL]+$", "", w)[2:], 2))
            if re.fullmatch(r"[0-9]+[uUlL]*", w):
                return str(int(re.sub(r"[uUlL]+$", "", w)))
            if w in self.macros:
                return "(" + str(self.macro_int(w, None, depth + 1)) + ")"
            try:
                return str(self.enumerator(w))
            except AnalysisBroken:
                raise AnalysisBroken("macro %s: cannot evaluate token %s" % (name, w))

        expr = re.sub(r"[A-Za-z_0-9]+", sub, text)
        if not re.fullmatch(r"[0-9+\-*/%() <>&|^~]*", expr):
            raise AnalysisBroken("macro %s: unsupported text %r" % (name, text))
        expr = expr.replace("/", "//")
        try:
            return int(eval(expr, {"__builtins__": {}}, {}))
        except Exception as e:  # noqa
            raise AnalysisBroken("macro %s: %s" % (name, e))

    # call graph ----------------------------------------------------------
    def callers_of(self, callee):
        out = []
        for f in self.all_fns():
            if not f.cfg:
                continue
            for b, i, c, line in f.all_calls():
                if c.get("fn") == callee:
                    out.append((f, b, i, c, line))
        return out
