"""Inlining of helpers the rule set does not know.

The rules were confirmed against the functions of the pinned tree (names in sa/known_functions.txt).  A function that is *not* in
that list — typically a block a maintainer extracted into a new static helper, or a renamed helper — is spliced into the CFG of each
caller before any rule looks at it, so that "extract function" is transparent to every intra-procedural rule and a change hidden in a
new helper is analysed in the context of its caller.  Works on the raw per-function JSON of the extractor:

  caller block B = e0 .. e(i-1), CALL, e(i+1) .. en          becomes
  B  = e0 .. e(i-1), [param = arg ...]  ──►  callee blocks (ids shifted; `return e` becomes `__ret = e` and an edge to B')
  B' = e(i+1) .. en  with B's terminator and successors; references to the call's value become references to `__ret`

A parameter that the callee never writes and whose argument is a plain lvalue/constant is substituted textually, so the inlined body
reads like the code before the extraction (`this->s[besti]`, not `s[i]` of a copy)."""
import copy
import os

from .facts import walk, strip_casts, writes, addr_taken

MAX_BLOCKS = 80
MAX_ROUNDS = 4
KNOWN_FILE = os.path.join(os.path.dirname(os.path.abspath(__file__)), "known_functions.txt")


def known_functions():
    if not os.path.exists(KNOWN_FILE):
        return None
    return {l.strip() for l in open(KNOWN_FILE) if l.strip() and not l.startswith("#")}


def _simple(x):
    """Side-effect-free expression made of references, members, subscripts, literals, casts, & and *."""
    x = strip_casts(x)
    if not isinstance(x, dict):
        return False
    k = x.get("k")
    if k in ("ref", "int", "str", "char"):
        return True
    if k == "mem":
        return _simple(x["b"])
    if k == "idx":
        return _simple(x["b"]) and _simple(x["i"])
    if k == "un" and x["op"] in ("&", "*", "-", "+"):
        return _simple(x["e"])
    if k == "bin" and x["op"] in ("+", "-") and x.get("t", "").endswith("*") is False:
        return _simple(x["l"]) and _simple(x["r"])
    return False


def _map_tree(x, fn):
    """Rebuild tree x applying fn(node) -> replacement|None top-down."""
    if isinstance(x, dict):
        r = fn(x)
        if r is not None:
            return r
        return {k: _map_tree(v, fn) for k, v in x.items()}
    if isinstance(x, list):
        return [_map_tree(v, fn) for v in x]
    return x


def _resolve_local(blocks_by_id, x, depth=0):
    if not isinstance(x, dict) or depth > 40:
        return x
    if x.get("k") == "elem":
        return _resolve_local(blocks_by_id, blocks_by_id[x["b"]]["elems"][x["i"]]["x"], depth + 1)
    if isinstance(x, dict):
        return {k: (_resolve_local(blocks_by_id, v, depth + 1) if isinstance(v, dict) else
                    [(_resolve_local(blocks_by_id, j, depth + 1) if isinstance(j, dict) else
                      ([_resolve_local(blocks_by_id, q, depth + 1) if isinstance(q, dict) else q for q in j] if isinstance(j, list) else j))
                     for j in v] if isinstance(v, list) else v) for k, v in x.items()}
    return x


def _written_names(raw):
    out = set()
    for b in raw["cfg"]["blocks"]:
        for e in b["elems"]:
            x = e["x"]
            if not isinstance(x, dict):
                continue
            for l, kind, n in writes(x):
                if kind == "decl":
                    continue
                l_ = strip_casts(l)
                if isinstance(l_, dict) and l_.get("k") == "ref":
                    out.add(l_["n"])
            for l in addr_taken(x):
                l_ = strip_casts(l)
                if isinstance(l_, dict) and l_.get("k") == "ref":
                    out.add(l_["n"])
    return out


def _same_var(a, b):
    return isinstance(a, dict) and isinstance(b, dict) and a.get("k") == "ref" and b.get("k") == "ref" and a.get("id") == b.get("id") \
        and a.get("n") == b.get("n")


def _inout_param(B, i, g):
    """(param id, receiving variable) when the call element i of block B is used as `v = call(..)` (v a plain variable) and every
    return statement of g returns one and the same by-value parameter."""
    recv = None
    for e in B["elems"][i + 1:]:
        x = e["x"]
        if isinstance(x, dict) and x.get("k") == "bin" and x.get("op") == "=":
            r = strip_casts(x["r"])
            l = strip_casts(x["l"])
            if isinstance(r, dict) and r.get("k") == "elem" and r["b"] == B["id"] and r["i"] == i and isinstance(l, dict) and l.get("k") == "ref":
                recv = l
                break
    if recv is None:
        return None
    pid = None
    for gb in g["cfg"]["blocks"]:
        for ge in gb["elems"]:
            gx = ge["x"]
            if isinstance(gx, dict) and gx.get("k") == "ret":
                r = gx.get("e")
                if isinstance(r, dict) and r.get("k") == "elem":
                    r = {b_["id"]: b_ for b_ in g["cfg"]["blocks"]}[r["b"]]["elems"][r["i"]]["x"]
                r = strip_casts(r) if r is not None else None
                if not (isinstance(r, dict) and r.get("k") == "ref" and r.get("dk") == "param"):
                    return None
                if pid is not None and pid != r.get("id"):
                    return None
                pid = r.get("id")
    if pid is None:
        return None
    return pid, recv


def inline_once(caller, callees):
    """Inline the first inlinable call found in raw function `caller`; callees: name -> raw.  Returns True when something was inlined."""
    cfg = caller["cfg"]
    by_id = {b["id"]: b for b in cfg["blocks"]}
    for B in cfg["blocks"]:
        for i, e in enumerate(B["elems"]):
            x = e["x"]
            if not (isinstance(x, dict) and x.get("k") == "call" and x.get("fn") in callees):
                continue
            g = callees[x["fn"]]
            if g is caller or not g.get("cfg") or len(g["cfg"]["blocks"]) > MAX_BLOCKS:
                continue
            _splice(caller, by_id, B, i, x, g)
            return True
    return False


def _splice(caller, by_id, B, i, call, g):
    cfg = caller["cfg"]
    nid = max(by_id) + 1
    gcfg = copy.deepcopy(g["cfg"])
    idmap = {}
    for gb in gcfg["blocks"]:
        idmap[gb["id"]] = nid
        nid += 1
    cont_id = nid
    nid += 1
    serial = caller.setdefault("_inl", 0) + 1
    caller["_inl"] = serial
    # names
    taken = {p["n"] for p in caller["params"]} | {l["n"] for l in caller["locals"]}
    written = _written_names(g)
    rename = {}
    subst = {}
    binds = []
    args = call["a"]
    inout = _inout_param(B, i, g)
    for pi, p in enumerate(g["params"]):
        if pi >= len(args):
            continue
        arg = _resolve_local(by_id, args[pi])
        if p["n"] not in written and _simple(arg):
            subst[p["id"]] = arg
        elif inout is not None and inout[0] == p["id"] and _same_var(strip_casts(arg), inout[1]):
            # `v = helper(.., v, ..)` where every return of the helper hands back that parameter: the helper works on v itself
            subst[p["id"]] = copy.deepcopy(inout[1])
        else:
            nm = p["n"] if p["n"] not in taken else "%s$%s%d" % (p["n"], g["name"], serial)
            rename[p["id"]] = nm
            taken.add(nm)
            binds.append({"line": call.get("line"), "x": {"k": "decl", "line": call.get("line"), "ds": [
                {"n": nm, "id": p["id"], "t": p.get("t", ""), "w": p.get("w"), "s": p.get("s"), "init": args[pi]}]}})
            caller["locals"].append({"n": nm, "id": p["id"], "t": p.get("t", ""), "w": p.get("w"), "s": p.get("s"), "p": p.get("p"),
                                     "line": call.get("line"), "static": False, "inlined_from": g["name"]})
    for l in g["locals"]:
        nm = l["n"] if l["n"] not in taken else "%s$%s%d" % (l["n"], g["name"], serial)
        rename[l["id"]] = nm
        taken.add(nm)
        nl = dict(l)
        nl["n"] = nm
        nl["inlined_from"] = g["name"]
        caller["locals"].append(nl)
    ret_t = (g.get("ret") or {}).get("t", "void")
    ret_name = "__ret_%s%d" % (g["name"], serial)
    ret_id = 900000000 + serial * 1000 + len(caller["locals"])
    has_value = ret_t != "void"
    if has_value:
        caller["locals"].append({"n": ret_name, "id": ret_id, "t": ret_t, "w": (g.get("ret") or {}).get("w"), "s": (g.get("ret") or {}).get("s"),
                                 "line": call.get("line"), "static": False, "inlined_from": g["name"]})
    ret_ref = {"k": "ref", "dk": "local", "id": ret_id, "n": ret_name, "t": ret_t}

    def fix_callee(n):
        k = n.get("k")
        if k == "elem":
            return {"k": "elem", "b": idmap[n["b"]], "i": n["i"]}
        if k == "ref" and n.get("id") in subst and n.get("dk") == "param":
            return copy.deepcopy(subst[n["id"]])
        if k == "ref" and n.get("id") in rename:
            m = dict(n)
            m["n"] = rename[n["id"]]
            if m.get("dk") == "param":
                m["dk"] = "local"
            return m
        if k == "decl":
            m = dict(n)
            m["ds"] = []
            for d in n["ds"]:
                d2 = {kk: _map_tree(vv, fix_callee) for kk, vv in d.items()}
                if d.get("id") in rename:
                    d2["n"] = rename[d["id"]]
                m["ds"].append(d2)
            return m
        return None

    g_exit = gcfg["exit"]
    # where the call stood: spliced elements belong to that place of the caller (the step expression of a loop, say)
    site = (B["elems"][i].get("at") or (B["elems"][i].get("line"), B["elems"][i].get("col")))
    new_blocks = []
    for gb in gcfg["blocks"]:
        nb = {"id": idmap[gb["id"]], "elems": [], "preds": [], "succs": [], "inlined_from": g["name"]}
        for k in ("term", "label", "looptarget", "noreturn"):
            if gb.get(k) is not None:
                nb[k] = _map_tree(gb[k], fix_callee) if isinstance(gb[k], (dict, list)) else gb[k]
        nb["dead"] = list(gb.get("dead", []))
        returns = False
        for ge in gb["elems"]:
            gx = ge["x"]
            if isinstance(gx, dict) and gx.get("k") == "ret":
                returns = True
                if gx.get("e") is not None and has_value:
                    nb["elems"].append({"line": ge.get("line"), "at": site, "x": {"k": "bin", "op": "=", "l": dict(ret_ref), "r": _map_tree(gx["e"], fix_callee),
                                                                   "t": ret_t, "line": gx.get("line"), "w": (g.get("ret") or {}).get("w"),
                                                                   "s": (g.get("ret") or {}).get("s")}})
                elif gx.get("e") is not None:
                    nb["elems"].append({"line": ge.get("line"), "at": site, "x": _map_tree(gx["e"], fix_callee)})
                continue
            nb["elems"].append({"line": ge.get("line"), "at": site, "x": _map_tree(gx, fix_callee)})
        nb["succs"] = [(cont_id if s == g_exit else idmap[s]) if s is not None else None for s in gb["succs"]]
        if gb["id"] == g_exit:
            nb["succs"] = [cont_id]
        if nb.get("noreturn"):
            pass
        new_blocks.append(nb)
    # continuation block
    shift = i + 1

    def fix_cont(n):
        if n.get("k") == "elem" and n["b"] == B["id"]:
            if n["i"] == i:
                return dict(ret_ref) if has_value else {"k": "int", "v": 0, "t": "int"}
            if n["i"] > i:
                return {"k": "elem", "b": cont_id, "i": n["i"] - shift}
        return None
    cont = {"id": cont_id, "elems": [dict({k_: v_ for k_, v_ in e.items() if k_ in ("col", "at")}, line=e.get("line"), x=_map_tree(e["x"], fix_cont))
                                     for e in B["elems"][i + 1:]],
            "succs": list(B["succs"]), "dead": list(B.get("dead", [])), "preds": []}
    if not cont["elems"] and has_value and B.get("term") is not None and len([s_ for s_ in B["succs"] if s_ is not None]) > 1:
        # the call was the whole branch condition (`if (helper(x))`): the continuation decides on the value the helper returned
        cont["elems"].append({"line": B["elems"][i].get("line"), "col": B["elems"][i].get("col"), "x": dict(ret_ref)})
    for k in ("term", "looptarget", "noreturn"):
        if B.get(k) is not None:
            cont[k] = _map_tree(B[k], fix_cont) if isinstance(B[k], (dict, list)) else B[k]
    # head keeps id, label, elements before the call (+ bindings)
    B["elems"] = B["elems"][:i] + binds
    B["succs"] = [idmap[gcfg["entry"]]]
    B["dead"] = []
    for k in ("term", "looptarget", "noreturn"):
        B.pop(k, None)
    # other blocks may reference elements of B behind the call (conditions do so only within a block, but be safe)
    for ob in cfg["blocks"]:
        if ob is B:
            continue
        for e in ob["elems"]:
            e["x"] = _map_tree(e["x"], fix_cont)
        if isinstance(ob.get("term"), dict):
            ob["term"] = _map_tree(ob["term"], fix_cont)
    if cfg["exit"] == B["id"]:
        cfg["exit"] = cont_id
    cfg["blocks"].extend(new_blocks)
    cfg["blocks"].append(cont)
    by_id.update({b["id"]: b for b in new_blocks})
    by_id[cont_id] = cont
    # predecessor lists
    for b in cfg["blocks"]:
        b["preds"] = []
    for b in cfg["blocks"]:
        for s in b["succs"]:
            if s is not None and s in by_id:
                by_id[s]["preds"].append(b["id"])


def inline_unknown(prog, known):
    """Splice every function that is not in `known` into its callers; returns the names that were inlined somewhere."""
    from .facts import Function, CFG
    unknown = {}
    for name, fl in prog.functions.items():
        if name in known:
            continue
        for f in fl:
            if f.raw.get("cfg") and len(f.raw["cfg"]["blocks"]) <= MAX_BLOCKS:
                unknown[name] = f.raw
    if not unknown:
        return set()
    # recursion among the unknown ones: do not inline a function into itself; bounded rounds take care of cycles
    used = set()
    touched = []
    allfns = [f for fl in prog.functions.values() for f in fl if f.raw.get("cfg")]
    for f in allfns:
        raw = f.raw
        names_called = set()
        for b in raw["cfg"]["blocks"]:
            for e in b["elems"]:
                x = e["x"]
                if isinstance(x, dict) and x.get("k") == "call" and x.get("fn") in unknown:
                    names_called.add(x["fn"])
        if not names_called:
            continue
        work = copy.deepcopy(raw)
        n = 0
        while n < 40 and inline_once(work, {k: v for k, v in unknown.items() if k != f.name}):
            n += 1
        if n:
            used |= names_called
            touched.append((f, work, n))
    for f, work, n in touched:
        f.raw = work
        f.locals = work["locals"]
        f.cfg = CFG(f, work["cfg"])
        f.inlined = n
    # a helper that lives on only inside its callers is not a function of its own for the per-file rules
    for name in used:
        fl = prog.functions.get(name, [])
        keep = [f for f in fl if not f.static]
        if keep:
            prog.functions[name] = keep
        else:
            prog.functions.pop(name, None)
    prog.inlined_helpers = sorted(used)
    return used


def with_inlined(prog, f, names):
    """A view of function f in which the calls to the named functions are spliced in (for rules that must read a callback and its
    helper as one piece of code, however the maintainer has split it)."""
    from .facts import Function
    callees = {}
    for n in names:
        for g in prog.functions.get(n, []):
            if g.raw.get("cfg") and g.file == f.file:
                callees[n] = g.raw
    if not callees:
        return f
    work = copy.deepcopy(f.raw)
    n = 0
    while n < 10 and inline_once(work, callees):
        n += 1
    if not n:
        return f
    g = Function(work, f.unit)
    g.inlined = n
    return g
