#!/bin/sh
# Replay for C19/R19.7: after yielding the largest positive member (+383 / +447) the bitset iterators' cursor is exactly
# countof(pos)*32, a value neither the "positives" (cursor < N) nor the "negatives" (cursor > N) branch accepts: iteration
# ended there and every negative member was dropped.  Build against SRC (default /repo/src) and run.
cd "$(dirname "$0")"; SRC=${SRC:-/repo/src}; T=$(mktemp -d)
cc -std=gnu11 -O1 -I"$SRC" -DHAVE_CONFIG_H -o "$T/h" harness.c "$SRC/bitint.c" 2>"$T/err" || cc -std=gnu11 -O1 -I"$SRC" -o "$T/h" harness.c "$SRC/bitint.c" || { cat "$T/err"; rm -rf "$T"; exit 2; }
"$T/h"; rc=$?; rm -rf "$T"
echo "# expected: every inserted value iterated exactly once, PASS (before the fix: -1 -383 / -1 -447 missing when +383 / +447 is a member)"
exit $rc
