/* Replay for C19/R19.7: a bitint383_t / bitint447_t in bitset mode that contains the largest positive value of its range
 * (+383 / +447) and negative values.  Iteration must yield every member exactly once. */
#include <stdio.h>
#include <string.h>
#include "bitint.h"

static int
run383(const int *v, size_t n)
{
	bitint383_t bi;
	bitint_iter_t it = 0U;
	int got[64], ng = 0, rc = 0;

	memset(&bi, 0, sizeof(bi));
	for (size_t i = 0U; i < n; i++) {
		ass_bi383(&bi, v[i]);
	}
	for (int x; (x = bi383_next(&it, &bi), it) && ng < 64; got[ng++] = x);
	printf("bitint383 inserted:");
	for (size_t i = 0U; i < n; i++) printf(" %d", v[i]);
	printf("\n          iterated:");
	for (int i = 0; i < ng; i++) printf(" %d", got[i]);
	printf("\n");
	for (size_t i = 0U; i < n; i++) {
		int seen = 0;
		for (int j = 0; j < ng; j++) seen += got[j] == v[i];
		if (seen != 1) { printf("  MISSING/DUPLICATE member %d (seen %d times)\n", v[i], seen); rc = 1; }
	}
	return rc;
}

static int
run447(const int *v, size_t n)
{
	bitint447_t bi;
	bitint_iter_t it = 0U;
	int got[64], ng = 0, rc = 0;

	memset(&bi, 0, sizeof(bi));
	for (size_t i = 0U; i < n; i++) {
		ass_bi447(&bi, v[i]);
	}
	for (int x; (x = bi447_next(&it, &bi), it) && ng < 64; got[ng++] = x);
	printf("bitint447 inserted:");
	for (size_t i = 0U; i < n; i++) printf(" %d", v[i]);
	printf("\n          iterated:");
	for (int i = 0; i < ng; i++) printf(" %d", got[i]);
	printf("\n");
	for (size_t i = 0U; i < n; i++) {
		int seen = 0;
		for (int j = 0; j < ng; j++) seen += got[j] == v[i];
		if (seen != 1) { printf("  MISSING/DUPLICATE member %d (seen %d times)\n", v[i], seen); rc = 1; }
	}
	return rc;
}

int
main(void)
{
	/* 13 / 15 distinct values force the bitset representation */
	static const int a[] = {1, 2, 3, 4, 5, 6, 7, 8, 9, 10, 383, -1, -383};
	static const int b[] = {1, 2, 3, 4, 5, 6, 7, 8, 9, 10, 11, 12, 447, -1, -447};
	static const int c[] = {1, 2, 3, 4, 5, 6, 7, 8, 9, 10, 382, -1, -383};
	static const int d[] = {0, 1, 2, 3, 4, 5, 6, 7, 8, 9, 383, -1, -5};	/* with the naught: must not come twice */
	int rc = 0;

	rc |= run383(d, sizeof(d) / sizeof(*d));
	rc |= run383(a, sizeof(a) / sizeof(*a));
	rc |= run447(b, sizeof(b) / sizeof(*b));
	rc |= run383(c, sizeof(c) / sizeof(*c));	/* control: 382 instead of 383 */
	puts(rc ? "FAIL: iteration is not the inserted set" : "PASS");
	return rc;
}
