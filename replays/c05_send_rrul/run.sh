#!/bin/sh
# Replay for C05: a rule written by the serialiser (echse merge) must read back to the same schedule.
cd "$(dirname "$0")"; E=${ECHSE:-/repo/src/echse}
T=$(mktemp -d); trap 'rm -rf "$T"' EXIT
echo "== original rule:"; grep RRULE rule.ics
echo "== as written by echse merge:"; $E merge rule.ics > "$T/m.ics"; grep RRULE "$T/m.ics"
echo "== occurrences of the original:";  $E unroll rule.ics | cut -f1 | tr '\n' ' '; echo
echo "== occurrences after write+read:"; $E unroll "$T/m.ics" | cut -f1 | tr '\n' ' '; echo
