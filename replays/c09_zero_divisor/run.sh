#!/bin/sh
# Replay for C09/R09.5: a DAILY rule on SCALE=HIJRI.UMMULQURA running off the end of the month table (1500 AH):
# echs_scale_ndim() returns 0 and the filler computes d %= 0.
cd "$(dirname "$0")"; E=${ECHSE:-/repo/src/echse}
timeout 10 $E unroll hijri_end.ics | tail -2; echo "exit status: $? (136 = SIGFPE, 124 = timeout)"
timeout 10 $E unroll hijri_end.ics >/dev/null 2>&1; echo "exit status of echse: $?"
