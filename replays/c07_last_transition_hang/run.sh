#!/bin/sh
# Replay for C07/R07.8: __find_trno() returns only from a half-open cell [trans(i), trans(i+1)); the test in front of the loop admitted
# t == trans(max) (`t > ...`), which lies in no cell — no exit, no progress.  The local->UTC iteration probes the wall-clock time read as
# UTC first, so a DTSTART whose wall-clock digits equal the zone's last recorded transition (Europe/Berlin: 2037-10-25 01:00:00) hangs.
cd "$(dirname "$0")"; E=${ECHSE:-/repo/src/echse}
grep DTSTART berlin_last_transition.ics
out=$(timeout 10 $E unroll berlin_last_transition.ics); rc=$?
echo "$out"; echo "# exit status $rc (124 = killed by timeout before the fix); expected 2037-10-24T23:00:00 (01:00 CEST)"
[ $rc = 0 ] && [ "$(echo "$out" | cut -f1)" = "2037-10-24T23:00:00" ]
