#!/bin/sh
# Replay for C06/R06.8: in the all-users dump, when a user's dot-file cannot be opened (EMFILE: the dump holds one descriptor per user)
# the fallback `for (; i < nsnds; i++) rc += chkpnt1(u);` checkpoints the SAME user for every remaining slot: the users behind the
# failing one are not checkpointed at all, although the daemon acknowledged their changes and shuts down "cleanly".
cd "$(dirname "$0")"; R=${ECHSE_REPO:-/repo}; S=$R/src
W=$(mktemp -d) || exit 2; trap 'rm -rf "$W"' EXIT
LIB="instant range dt-strpf module hash intern state task strlst bufpool event evstrm evical evrrul evmrul evfilt tzob scale shift tzraw bitint echse-genuid"
SRCS="$S/logger.c"; for f in $LIB; do SRCS="$SRCS $S/$f.c"; done
sed "s#\"echsd.c\"#\"$S/echsd.c\"#" harness.c > $W/harness.c
gcc -std=c11 -O0 -w -DHAVE_CONFIG_H -D_POSIX_C_SOURCE=200809L -D_XOPEN_SOURCE=700 -D_DEFAULT_SOURCE -I"$S" -I"$R" -o "$W/h" "$W/harness.c" $SRCS -lev -lm -lltdl -ldl 2>$W/cc.log || { cat $W/cc.log; exit 2; }
mkdir $W/spool
# 18 users add one task each (>= 16 notices: the final checkpoint is the all-users dump); the 2nd dot-file open of the dump fails
adds=""; i=1; while [ $i -le 18 ]; do adds="$adds add:$((1000+i)):t$i"; i=$((i+1)); done
"$W/h" $W/spool $adds failopen:2 shutdown 2>>$W/log
n=$("$W/h" $W/spool load dump 2>>$W/log | wc -l)
echo "tasks accepted: 18; tasks scheduled after the restart: $n; queue files written: $(ls $W/spool | grep -c '^echsq_')"
echo "# expected: 18 (every user's change was acknowledged; a single failing open may cost at most that one checkpoint, and the fallback"
echo "#           is there to retry it).  Defect: only the users in front of the failing one plus that one user are written."
