/* Compares echs_instant_to_epoch()/epoch_to_echs_instant() with timegm() for every day 1970-01-01 .. 2099-12-31. */
#include <stdio.h>
#include <time.h>
#include "instant.h"
int main(void){
 long bad=0, n=0;
 static const int ml[]={0,31,28,31,30,31,30,31,31,30,31,30,31};
 for (int y=1970;y<=2099;y++) for(int m=1;m<=12;m++) for (int d=1; d<=ml[m]+(m==2&&y%4==0); d++){
   echs_instant_t i = {.y=y,.m=m,.d=d,.H=12,.M=34,.S=56,.ms=0};
   struct tm tm = {.tm_year=y-1900,.tm_mon=m-1,.tm_mday=d,.tm_hour=12,.tm_min=34,.tm_sec=56};
   time_t want = timegm(&tm); time_t got = echs_instant_to_epoch(i); n++;
   if (want!=got){ if(bad++<4) printf("to_epoch %04d-%02d-%02d: off by %ld days\n",y,m,d,(long)(got-want)/86400);}
   echs_instant_t back = epoch_to_echs_instant(want);
   if (back.y!=y||back.m!=m||back.d!=d||back.H!=12||back.M!=34||back.S!=56) { if(bad++<8) printf("from_epoch %04d-%02d-%02d -> %04d-%02d-%02d\n",y,m,d,back.y,back.m,back.d);}
 }
 printf("days checked=%ld disagreements=%ld\n",n,bad); return bad!=0;}
