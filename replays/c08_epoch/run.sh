#!/bin/sh
# Replay for C08: library epoch conversions vs timegm() for every day 1970..2099.
cd "$(dirname "$0")"; T=$(mktemp -d); trap 'rm -rf "$T"' EXIT
cc -std=gnu11 -D_GNU_SOURCE -I/repo/src -I/repo -DHAVE_CONFIG_H epoch.c /repo/src/.libs/libechse.a -lm -lltdl -ldl -o "$T/e" 2>/dev/null || cc -std=gnu11 -D_GNU_SOURCE -I/repo/src -I/repo -DHAVE_CONFIG_H epoch.c /repo/src/.libs/libechse.a -lm -ldl -o "$T/e"
"$T/e"
