#!/bin/sh
# Replay for C14/R14.6: an execution request whose limit is a DUE time with a TZID.  The reader attaches the zone to the instant (tag
# bits in the month/day bytes) and make_task() converted DTSTART and DTEND to UTC but copied DUE as it was: echsx then computed the
# epoch of an instant whose month/day bytes still carried the tag, got a time far from the due time, and the job was never killed.
# The real echsx is handed `sleep 6` with DUE 2 s ahead, once as UTC (`...Z`) and once as the same instant on Europe/Berlin's clock.
#
# Usage: ./run.sh     (ECHSX=/repo/src/echsx by default; takes ~10 s)
ECHSX=${ECHSX:-/repo/src/echsx}
T=$(mktemp -d /tmp/c14due.XXXXXX) || exit 2
trap 'rm -rf "$T"' EXIT INT TERM
req() { # $1 = the DUE line
cat <<EOT
BEGIN:VCALENDAR
VERSION:2.0
BEGIN:VTODO
UID:c14-zoned-due
SUMMARY:sleep 6
X-ECHS-SETUID:$(id -u)
X-ECHS-SETGID:$(id -g)
X-ECHS-SHELL:/bin/sh
LOCATION:/tmp
$1
X-ECHS-MAIL-RUN:0
X-ECHS-MAIL-OUT:0
X-ECHS-MAIL-ERR:0
END:VTODO
END:VCALENDAR
EOT
}
bad=0
for how in utc zoned; do
	at=$(( $(date +%s) + 3 ))
	if [ $how = utc ]; then
		due="DUE:$(date -u -d @$at +%Y%m%dT%H%M%SZ)"
	else
		due="DUE;TZID=Europe/Berlin:$(TZ=Europe/Berlin date -d @$at +%Y%m%dT%H%M%S)"
	fi
	s=$(date +%s.%N)
	req "$due" | timeout 20 "$ECHSX" -v > "$T/out" 2>"$T/err"
	e=$(date +%s.%N)
	ran=$(echo "$e - $s" | bc)
	sig=$(grep -c 'X-SIGNAL\|XCPU' "$T/out")
	printf '%s -> job ran %.1f s, %s signal line(s) in the journal\n' "$due" "$ran" "$sig"
	grep -h "due time" "$T/err" "$T/out" 2>/dev/null | head -1
	[ "$(echo "$ran < 4.5" | bc)" = 1 ] && [ "$sig" -ge 1 ] || bad=1
done
echo "# expected: both jobs are killed about 3 s after the request (sleep 6 does not finish)"
exit $bad
