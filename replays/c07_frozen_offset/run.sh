#!/bin/sh
# Replay for C07/R07.9: the per-zone range cache of tzraw.c.  A never-filled cache is all zeros; for a first lookup before 1970 __offs()
# searched the empty interval [0, 0], __find_zrng() cached [INT_MIN, INT_MAX) with the first transition's offset, and the zone stayed on
# that offset for the rest of the process: the same 2015 summer event is converted differently depending on what precedes it in the file.
cd "$(dirname "$0")"; E=${ECHSE:-/repo/src/echse}
a=$($E unroll summer.ics | grep summer | cut -f1)
b=$($E unroll frozen.ics | grep summer | cut -f1)
echo "DTSTART;TZID=Europe/Berlin:20150615T090000 alone:                        $a"
echo "the same event after DTSTART;TZID=Europe/Berlin:19650115T090000:         $b"
echo "# expected: 2015-06-15T07:00:00 both times; before the fix the second was 08:00:00 (winter offset frozen)"
[ "$a" = "2015-06-15T07:00:00" ] && [ "$b" = "2015-06-15T07:00:00" ]
