#!/bin/sh
# Replay for C01/R01.12: a day of the year beyond the year's end — BYYEARDAY=366 in a common year, the 53rd Monday of a year that has 52
# — came out of yd_to_md() as month 13 and went into the candidate set as it was: `echse unroll` printed dates like 2021-13-01 and
# the daemon armed them as January 1 of the year after.  RFC 5545: such a rule part selects nothing in that year.
ECHSE=${ECHSE:-/repo/src/echse}
bad=0
for r in "FREQ=YEARLY;BYYEARDAY=366;COUNT=3" "FREQ=YEARLY;BYDAY=53MO;COUNT=3"; do
	out=$("$ECHSE" unroll -e "$r" --from 2021-01-01 | tr -d '\t' | tr '\n' ' ')
	echo "$r from 2021-01-01: $out"
	case "$out" in *-13-*) bad=1;; esac
done
echo "# expected: December dates of the years that have a day 366 / a 53rd Monday (2024-12-31 ..., 2024-12-30 ...), no month 13"
exit $bad
