#!/bin/sh
# Replay for the known finding C10/R10.7 (and C05/R10.7 escaped-byte-kept): esccpy() is handed whatever piece of a line the transport
# delivered and keeps no state.  A backslash and the byte behind it, or a line break and its fold blank, that arrive in two pieces are
# read differently from a pair that arrives in one.  The same file is parsed from a regular file (one read) and from a pipe that
# delivers one byte per write.
cd "$(dirname "$0")"; E=${ECHSE:-/repo/src/echse}
a=$($E unroll < escapes_and_fold.ics | cut -f2)
b=$(python3 feed.py escapes_and_fold.ics 1 | $E unroll | cut -f2)
echo "SUMMARY as written : 'folded ' + fold + 'line \\, with\; escapes'"
echo "read in one piece   : '$a'"
echo "read byte by byte   : '$b'"
echo "# expected: the same text both times (RFC 5545: 'folded line , with; escapes'); the two differ, and the one-piece reading has"
echo "# lost the bytes behind the backslashes"
[ "$a" = "$b" ]
