import sys, os, time
d = open(sys.argv[1], 'rb').read()
n = int(sys.argv[2])
for i in range(0, len(d), n):
    os.write(1, d[i:i+n])
    time.sleep(0.002)
