#!/bin/sh
# Replay for C02/R02.4: an event with two EXDATE lines (one exception each, as many exporters write them) and one with two RDATE lines.
# Every named exception must be excluded and every RDATE must occur; before the fix only the LAST line of each kind survived.
cd "$(dirname "$0")"; E=${ECHSE:-/repo/src/echse}
echo "EXDATE 0102 + EXDATE 0103 on a 5-day daily rule -> $($E unroll two_exdate_lines.ics | cut -f1 | cut -c6-10 | tr '\n' ' ')"
echo "RDATE 0105 + RDATE 0103,0107                    -> $($E unroll two_rdate_lines.ics | cut -f1 | cut -c6-10 | tr '\n' ' ')"
echo "# expected: 01-01 01-04 01-05 / 01-03 01-05 01-07   (before the fix: 01-01 01-02 01-04 01-05 / 01-03 01-07)"
