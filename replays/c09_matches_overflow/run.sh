#!/bin/sh
# Replay for C09/R09.2: `echse unroll --filter` calls rrul_fill_yly(wl, 256, filt) on a 256-entry static array; the yearly filler
# also writes group stamps at tgt[res + 64].  Built with AddressSanitizer in a scratch copy: global-buffer-overflow on wl.
set -e
cd "$(dirname "$0")"; HERE=$(pwd)
T=$(mktemp -d); trap 'rm -rf "$T"' EXIT
cp /repo/src/*.c /repo/src/*.h /repo/src/*.yucc "$T"/ 2>/dev/null; cp /repo/version.mk "$T"/ 2>/dev/null || true
cd "$T"
LIB="instant.c range.c dt-strpf.c module.c hash.c intern.c state.c task.c strlst.c bufpool.c event.c evstrm.c evical.c evrrul.c evmrul.c evfilt.c tzob.c scale.c shift.c tzraw.c bitint.c echse-genuid.c"
clang -g -O0 -fsanitize=address -fno-omit-frame-pointer -std=gnu11 -DHAVE_CONFIG_H -D_POSIX_C_SOURCE=200809L -D_XOPEN_SOURCE=700 -D_DEFAULT_SOURCE -DSTANDALONE -I. -I/repo \
   -w echse.c $LIB -lm -lltdl -ldl -o echse_asan 2>"$T/cc.err" || { tail -5 "$T/cc.err"; exit 2; }
ASAN_OPTIONS=detect_leaks=0 ./echse_asan unroll --filter 'FREQ=YEARLY;BYDAY=MO,TU,WE,TH,FR' "$HERE/ev.ics" 2>&1 | grep -E "ERROR: AddressSanitizer|WRITE of|rrul_fill_yly|echs_instant_matches_p|is located" | head -8
