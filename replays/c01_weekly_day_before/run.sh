#!/bin/sh
# Replay for C01/R01.8: FREQ=WEEKLY with a BYDAY that names the weekday just before DTSTART's weekday.  rrul_fill_wly() duplicates the
# weekday mask by 7 bits for wrap-around, shifts it to DTSTART's weekday and then "clamps to exactly 7 days" with a 6-bit mask: the
# 7th position (DTSTART's weekday + 6) was dropped; with BYDAY=TU from a Wednesday the set became empty and the filter was ignored.
cd "$(dirname "$0")"; E=${ECHSE:-/repo/src/echse}
a=$($E unroll byday_tu_from_wed.ics | cut -f1 | tr '\n' ' ')
b=$($E unroll byday_tu_we_from_wed.ics | cut -f1 | tr '\n' ' ')
echo "DTSTART Wed 2014-01-01, FREQ=WEEKLY;BYDAY=TU;COUNT=4     -> $a"
echo "DTSTART Wed 2014-01-01, FREQ=WEEKLY;BYDAY=TU,WE;COUNT=4  -> $b"
echo "# expected: Tuesdays appear (2014-01-07, 2014-01-14, ...); before the fix: Wednesdays only, no Tuesday ever"
case "$a$b" in *2014-01-07*) exit 0;; esac
exit 1
