#!/bin/sh
# Replay for C05/R05.5 (pending array), fixed by 78bcfdb: an event with a list of RDATEs becomes a stream that keeps its pending
# occurrences in an array; send_evical_vevent() wrote ev[i] as DTSTART and nothing else.  Whenever such a task was written (checkpoint,
# echsq submission, echse merge) every RDATE but the next one was lost.
cd "$(dirname "$0")"; E=${ECHSE:-/repo/src/echse}
T=$(mktemp -d); trap 'rm -rf "$T"' EXIT
a=$($E unroll three_rdates.ics | cut -f1 | tr '\n' ' ')
$E merge three_rdates.ics > "$T/m.ics"
b=$($E unroll "$T/m.ics" | cut -f1 | tr '\n' ' ')
echo "occurrences as read:            $a"
echo "written by echse merge:         $(grep -E '^(DTSTART|RDATE)' "$T/m.ics" | tr '\n' ' ')"
echo "occurrences after write + read: $b"
echo "# expected by C05: the written task describes exactly the occurrences not yet consumed"
[ "$a" = "$b" ]
