#!/bin/sh
# Replay for C14: the real echsx is handed an execution request (VTODO) for `sleep 6` with a 2 s limit,
# (a) spelt the way echsd's vtodoify() spells it, (b) spelt as ISO 8601.  A conforming executor kills
# the job after ~2 s.  Prints the wall-clock run time of each.
ECHSX=${ECHSX:-/repo/src/echsx}
T=$(mktemp -d); trap 'rm -rf "$T"' EXIT
req() { # $1 = DURATION value
cat <<EOT
BEGIN:VCALENDAR
VERSION:2.0
BEGIN:VTODO
UID:c14-replay
SUMMARY:sleep 6
X-ECHS-SETUID:$(id -u)
X-ECHS-SETGID:$(id -g)
X-ECHS-SHELL:/bin/sh
LOCATION:/tmp
DURATION:$1
X-ECHS-MAIL-RUN:0
X-ECHS-MAIL-OUT:0
X-ECHS-MAIL-ERR:0
END:VTODO
END:VCALENDAR
EOT
}
for d in "$@"; do
  s=$(date +%s.%N)
  req "$d" | timeout 20 "$ECHSX" -v > "$T/out" 2>"$T/err"
  e=$(date +%s.%N)
  printf 'DURATION:%s -> job ran %.1f s; journal: %s\n' "$d" "$(echo "$e - $s" | bc)" "$(grep -c 'X-SIGNAL\|XCPU' "$T/out") signal line(s)"
done
