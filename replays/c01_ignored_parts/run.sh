#!/bin/sh
# Replay for C01/R01.1: rule parts that RFC 5545 applies at these frequencies but the fillers never read.
cd "$(dirname "$0")"; E=${ECHSE:-/repo/src/echse}
for f in dly_delegated_monthday wly_setpos dly_setpos Hly_setpos Mly_setpos Sly_setpos Mly_yearday Sly_yearday; do
  echo "$f: $(grep RRULE $f.ics)"; echo "   -> $(timeout 10 $E unroll $f.ics | cut -f1 | tr '\n' ' ')"
done
cat <<EOT
#           dly_delegated_monthday -> 2015-01-13 02-13 03-13 (weekdays that are the 13th); got every weekday
# RFC 5545: wly_setpos -> 2015-01-02 (first of week 1: Fri; Thu start), 01-05, 01-12 (one per week);  got MO/WE/FR all
#           dly_setpos -> 09:00 only each day;  Hly_setpos -> :40 only each hour;  Mly_setpos -> :10 only each minute
#           Sly_setpos(=2 of a 1-element set) -> nothing;  *_yearday -> only instants on 2015-01-03 (then 2016-01-03)
EOT
