#!/bin/sh
# Replay for C01/C09 R01.7: a negative BYMONTHDAY that reaches beyond the month's length (-30 in a 28-day February, -31 in April)
# names no day of that month and must be skipped (RFC 5545: invalid dates are ignored).  The range test `ndim + 1U + dd > 0` was
# evaluated in unsigned arithmetic, so the sum -1 passed as 4294967295 and the candidate landed on the last day of the PREVIOUS month.
cd "$(dirname "$0")"; E=${ECHSE:-/repo/src/echse}
a=$($E unroll neg30_monthly.ics | cut -f1 | tr '\n' ' ')
b=$(timeout 10 $E unroll --till=2030-01-01 neg31_yearly_feb_apr.ics | cut -f1 | tr '\n' ' ')
echo "FREQ=MONTHLY;BYMONTHDAY=-30;COUNT=6 from 2023-01-01 -> $a"
echo "FREQ=YEARLY;BYMONTH=2,4;BYMONTHDAY=-31 (till 2030)   -> $b"
echo "# expected: 2023-01-02 2023-03-02 2023-04-01 2023-05-02 2023-06-01 2023-07-02 (no 2023-01-31: February has no 30th-last day);"
echo "#           second rule: nothing beyond DTSTART itself (neither February nor April has a 31st-last day); before the fix: Jan 30/31 every year"
case "$a" in *2023-01-31*) exit 1;; esac
case "$b" in *-01-3*) exit 1;; esac
exit 0
