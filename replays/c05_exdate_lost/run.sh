#!/bin/sh
# Replay for C05/R05.5: the exception stream of a filtered event is not serialised.
cd "$(dirname "$0")"; E=${ECHSE:-/repo/src/echse}
T=$(mktemp -d); trap 'rm -rf "$T"' EXIT
echo "original occurrences:        $($E unroll ev.ics | cut -f1 | tr '\n' ' ')"
$E merge ev.ics > "$T/m.ics"
echo "written form has EXDATE:     $(grep -c '^EXDATE' "$T/m.ics")"
echo "occurrences after write+read: $($E unroll "$T/m.ics" | cut -f1 | tr '\n' ' ')"
echo "# expected: Jan 1, 3, 4 both times (Jan 2 is excluded)"
