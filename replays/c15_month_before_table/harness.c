#include <stdio.h>
#include "scale.h"
int main(void)
{
	/* Umm al-Qura table starts at 1356-01 (SM = (1356-1)*12); the month before is 1355-12 */
	printf("ndim(1356,1)=%u\n", echs_scale_ndim(SCALE_HIJRI_UMMULQURA, 1356U, 1U));
	printf("ndim(1355,11)=%u\n", echs_scale_ndim(SCALE_HIJRI_UMMULQURA, 1355U, 11U));
	fflush(stdout);
	printf("ndim(1355,12)=%u\n", echs_scale_ndim(SCALE_HIJRI_UMMULQURA, 1355U, 12U));
	return 0;
}
