#!/bin/sh
# Replay for C15/R15.4 (also C09: memory safety): __ndim_ht() indexes the month-transition table with an unsigned difference and tested
# only `i + 1 >= nm`; for the month just before the table's first one (Umm al-Qura: 1355-12) i is UINT_MAX, i + 1 wraps to 0, and
# MT(cal)[UINT_MAX] is read.  Reachable from a file: a monthly rule in that scale with a forward SHIFT looks back one month.
cd "$(dirname "$0")"; R=${ECHSE_TREE:-/repo}; E=${ECHSE:-$R/src/echse}
T=$(mktemp -d); trap 'rm -rf "$T"' EXIT
cc -w -I "$R/src" -I "$R" -DHAVE_CONFIG_H -o "$T/h" harness.c "$R/src/scale.c" "$R/src/dat_ummulqura.c" "$R/src/dat_diyanet.c" || exit 2
"$T/h"; r1=$?
echo "# harness exit status $r1 (139 = SIGSEGV before the fix; expected: ndim(1355,12)=0)"
$E unroll shift1_first_month.ics; r2=$?
echo "# echse unroll exit status $r2 (139 before the fix)"
[ $r1 = 0 ] && [ $r2 = 0 ]
