#!/bin/sh
# Replay for C09/R09.4: struct enum_s has H[24], S[60] but the parser admits 25 hours (0..24) and 61 seconds (0..60):
# make_enum() writes one element past H into M[0] (and past S past the struct).
cd "$(dirname "$0")"; E=${ECHSE:-/repo/src/echse}
echo "== byhour25 (BYHOUR=0..24;BYMINUTE=33): last lines"; $E unroll byhour25.ics | cut -f1 | tail -3
echo "== bysecond61 under valgrind:"; valgrind -q $E unroll bysecond61.ics 2>&1 | grep -E "Invalid|uninitialised|make_enum|Conditional" | head -4; $E unroll bysecond61.ics | cut -f1 | tail -2
