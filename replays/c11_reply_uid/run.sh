#!/bin/sh
# Replay for C11/R11.7: the reply to a scheduling request must name the task the request was about.  echs_evical_pull() never set
# the instruction's oid for PUBLISH/REQUEST, so cmd_ical_rpl() printed obint_name(0) — the first string ever interned by the daemon,
# e.g. the UID of a task some other user added before.
#
# Usage: ./run.sh      (needs root: unshare -m -n -p for isolation; the real echsd, a python3 client on its abstract socket)
REPO=${REPO:-/repo}
if [ "$1" != "--inner" ]; then
	T=$(mktemp -d /tmp/c11rpl.XXXXXX) || exit 2
	trap 'rm -rf "$T"' EXIT INT TERM
	mkdir -p "$T/bin" "$T/spool"
	cp "$REPO/src/echsd" "$T/bin/" || exit 2
	printf '#!/bin/sh\ncat >/dev/null\nexit 0\n' > "$T/bin/echsx"; chmod 755 "$T/bin/echsx"
	timeout 60 unshare -m -n -p -f --kill-child --mount-proc "$0" --inner "$T"
	exit $?
fi
T=$2
mount --bind "$T/spool" /var/spool || exit 2
LOG=$T/echsd.log
"$T/bin/echsd" -n 2>"$LOG" &
DPID=$!
trap 'kill -TERM $DPID 2>/dev/null' EXIT
i=0
while ! grep -q 'echsd ready' "$LOG"; do
	i=$((i + 1)); [ $i -gt 50 ] && { echo "echsd did not start"; cat "$LOG"; exit 2; }
	sleep 0.1
done
python3 - <<'PY'
import socket, sys, time
def req(uid):
    s = socket.socket(socket.AF_UNIX, socket.SOCK_STREAM)
    s.connect("\0/var/run/echse/=echsd")
    s.sendall(("BEGIN:VCALENDAR\nVERSION:2.0\nMETHOD:PUBLISH\nBEGIN:VEVENT\nUID:%s\nSUMMARY:true\n"
               "DTSTART:20990101T000000Z\nRRULE:FREQ=YEARLY\nEND:VEVENT\nEND:VCALENDAR\n" % uid).encode())
    s.shutdown(socket.SHUT_WR)
    buf = b""
    s.settimeout(5)
    try:
        while True:
            d = s.recv(4096)
            if not d:
                break
            buf += d
    except socket.timeout:
        pass
    s.close()
    return [l for l in buf.decode(errors="replace").splitlines() if l.startswith(("UID:", "REQUEST-STATUS"))]
r1 = req("alice-backup@host")
r2 = req("bob-report@host")
print("request 1 (UID:alice-backup@host) -> reply", r1)
print("request 2 (UID:bob-report@host)   -> reply", r2)
print("# expected: each reply carries the UID of its own request; before the fix both replies carry the first string the daemon interned")
sys.exit(0 if ("UID:alice-backup@host" in r1 and "UID:bob-report@host" in r2) else 1)
PY
rc=$?
kill -TERM $DPID; wait $DPID 2>/dev/null
trap - EXIT
exit $rc
