#!/bin/sh
# Replay for C01/R01.11: the yearly and monthly fillers copied the BYMONTHDAY list into a local array with a loop bounded by the number
# of results wanted — COUNT when COUNT is small.  `FREQ=MONTHLY;BYMONTHDAY=5,15;COUNT=1` from January 15 kept the 5th only, found
# January 5 to lie before DTSTART and answered February 5; RFC 5545 has January 15.
ECHSE=${ECHSE:-/repo/src/echse}
bad=0
chk() { # rule, from, expected first occurrence
	got=$("$ECHSE" unroll -e "$1" --from "$2" | head -1 | tr -d '\t')
	echo "$1 from $2 -> $got (expected $3)"
	[ "$got" = "$3" ] || bad=1
}
chk "FREQ=MONTHLY;BYMONTHDAY=5,15;COUNT=1" 2020-01-15 2020-01-15
chk "FREQ=MONTHLY;BYMONTHDAY=5,15,25;COUNT=2" 2020-01-20 2020-01-25
chk "FREQ=YEARLY;BYMONTH=3;BYMONTHDAY=5,15;COUNT=1" 2020-03-15 2020-03-15
exit $bad
