#!/bin/sh
# Replay for C09/R09.8: INTERVAL=-1 is accepted by snarf_rrule() (the zero test lets negative numbers through) and stored into the
# unsigned step as 4294967295; the monthly filler's `m += inter` then is `m - 1`, the month counter reaches 0 and the month-length
# lookup reads mdays[-1].  Built with AddressSanitizer from SRC (default /repo/src) in a scratch directory.
cd "$(dirname "$0")"; HERE=$(pwd); SRC=${SRC:-/repo/src}
T=$(mktemp -d); trap 'rm -rf "$T"' EXIT
cp "$SRC"/*.c "$SRC"/*.h "$SRC"/*.yucc "$T"/ 2>/dev/null; cp "$SRC"/../version.mk "$T"/ 2>/dev/null || true
cd "$T"
LIB="instant.c range.c dt-strpf.c module.c hash.c intern.c state.c task.c strlst.c bufpool.c event.c evstrm.c evical.c evrrul.c evmrul.c evfilt.c tzob.c scale.c shift.c tzraw.c bitint.c echse-genuid.c"
clang -g -O0 -fsanitize=address,undefined -fno-omit-frame-pointer -std=gnu11 -DHAVE_CONFIG_H -D_POSIX_C_SOURCE=200809L -D_XOPEN_SOURCE=700 -D_DEFAULT_SOURCE -DSTANDALONE -I. -I"$SRC"/.. \
   -w echse.c $LIB -lm -lltdl -ldl -o echse_asan 2>"$T/cc.err" || { tail -5 "$T/cc.err"; exit 2; }
ASAN_OPTIONS=detect_leaks=0 timeout 20 ./echse_asan unroll --till=2016-01-01 "$HERE/neg_interval.ics" > out.txt 2>&1; rc=$?
grep -E "ERROR: AddressSanitizer|runtime error|READ of|__get_ndom|echs_scale_ndim|rrul_fill_mly|is located" out.txt | head -8
echo "occurrences printed: $(grep -c '^20' out.txt)  exit=$rc"
echo "# expected: the rule is rejected (only DTSTART itself is printed, no sanitizer report); before the fix: out-of-bounds index -1 into the month-length table"
grep -q -E "AddressSanitizer|runtime error" out.txt && exit 1; exit 0
