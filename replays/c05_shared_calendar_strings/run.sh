#!/bin/sh
# Replay for C05/R05.10 (also C11: run-as provenance): a user or group given by name at calendar level is a heap string; BEGIN:VEVENT
# copied the calendar's task record into each event with a struct assignment, so all tasks of the file held the same pointer and each
# freed it: abort with "double free", and the second event was written back as X-ECHS-SETUID:<whatever the freed memory held>.
cd "$(dirname "$0")"; E=${ECHSE:-/repo/src/echse}
$E unroll two_events.ics; r1=$?
out=$($E merge two_events.ics 2>&1); r2=$?
echo "$out" | grep -E "SETUID|SETGID|free"
echo "# exit status unroll=$r1 merge=$r2 (134 = abort before the fix); expected X-ECHS-SETUID:nobody / X-ECHS-SETGID:staff twice"
[ $r1 = 0 ] && [ $r2 = 0 ] && [ "$(echo "$out" | grep -c 'X-ECHS-SETUID:nobody')" = 2 ] && [ "$(echo "$out" | grep -c 'X-ECHS-SETGID:staff')" = 2 ]
