#!/bin/sh
# Replay for C19 (through the RRULE layer that uses the containers).  Expected per RFC 5545 after '#'.
cd "$(dirname "$0")"; E=${ECHSE:-/repo/src/echse}
for f in byhour0 byminute0 bymonth_single_interval bymonthday_neg_only byyearday_neg_only; do
  echo "== $f: $(grep -E '^(DTSTART|RRULE)' $f.ics | tr '\n' ' ')"; timeout 10 $E unroll $f.ics | cut -f1 | tr '\n' ' '; echo
done
echo "# expected: byhour0: 01-02T00:00 01-03T00:00 01-04T00:00 | byminute0: 13:00 14:00 15:00 | bymonth_single_interval: 2015-03-01 2016-03-01 2017-03-01 | bymonthday_neg_only: 01-30 01-31 02-27 02-28 | byyearday_neg_only: 2015-12-30 2015-12-31 2016-12-30 2016-12-31"
