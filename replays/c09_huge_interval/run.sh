#!/bin/sh
# Replay for C09/R09.8 (second clause): INTERVAL values that do not survive the parser's conversion or the fillers' arithmetic.
#   INTERVAL=4294967296  truncated to 0 by (unsigned int)tmp: the same instant is emitted for ever (the stream never advances)
#   INTERVAL=4294967295 / 2147483648 with FREQ=MONTHLY: `m += inter` on the signed month counter goes negative, month-table index out of bounds (SIGSEGV)
cd "$(dirname "$0")"; E=${ECHSE:-/repo/src/echse}; T=$(mktemp -d); rc=0
for spec in "MONTHLY 4294967296" "DAILY 4294967296" "MONTHLY 4294967295" "MONTHLY 2147483648" "WEEKLY 613566757"; do
	set -- $spec
	printf 'BEGIN:VCALENDAR\nVERSION:2.0\nBEGIN:VEVENT\nUID:big\nSUMMARY:big\nDTSTART;VALUE=DATE:20150315\nRRULE:FREQ=%s;INTERVAL=%s\nEND:VEVENT\nEND:VCALENDAR\n' "$1" "$2" > "$T/big.ics"
	timeout 10 $E unroll --till=2017-01-01 "$T/big.ics" > "$T/out.txt" 2>&1; r=$?
	n=$(grep -c '^20' "$T/out.txt"); u=$(grep '^20' "$T/out.txt" | sort -u | wc -l)
	echo "FREQ=$1;INTERVAL=$2 -> exit $r, $n occurrences printed ($u distinct) before 2017"
	{ [ $r -ne 0 ] || [ "$n" -gt 2 ]; } && rc=1
done
rm -rf "$T"
echo "# expected: exit 0 and at most DTSTART itself (the rule is rejected or its next occurrence lies beyond 2017);"
echo "# before the fix: thousands of copies of one date until the timeout (exit 124), or exit 139 (SIGSEGV)"
exit $rc
