#!/bin/sh
# Replay for C05/R05.4: a task submitted with X-ECHS-UMASK:0777 must reach the executor with umask 0777.
# The real echsd is run in private mount/net/pid namespaces with a fake executor that dumps the VTODO it is handed.
# Usage: ./run.sh   (needs root for unshare)
REPO=${REPO:-/repo}
if [ "$1" != "--inner" ]; then
	T=$(mktemp -d /tmp/c05um.XXXXXX) || exit 1
	trap 'rm -rf "$T"' EXIT INT TERM
	mkdir -p "$T/bin" "$T/spool"
	cp "$REPO/src/echsd" "$REPO/src/echsq" "$T/bin/" || exit 1
	cat > "$T/bin/echsx" <<EOX
#!/bin/sh
cat >> "$T/vtodo.log"
EOX
	chmod 755 "$T/bin/echsx"
	timeout 40 unshare -m -n -p -f --kill-child --mount-proc "$0" --inner "$T"
	exit $?
fi
T=$2
mount --bind "$T/spool" /var/spool || exit 1
"$T/bin/echsd" -n 2>"$T/echsd.log" &
DPID=$!
i=0; while ! grep -q 'echsd ready' "$T/echsd.log"; do i=$((i+1)); [ $i -gt 50 ] && { echo "echsd did not start"; cat "$T/echsd.log"; exit 1; }; sleep 0.1; done
for um in 0777 0770 027; do
	{ echo "BEGIN:VCALENDAR"; echo "VERSION:2.0"; echo "BEGIN:VEVENT"; echo "UID:um-$um"; echo "SUMMARY:true"; echo "X-ECHS-UMASK:$um"
	  echo "DTSTART:$(date -u -d '+2 sec' +%Y%m%dT%H%M%SZ)"; echo "END:VEVENT"; echo "END:VCALENDAR"; } > "$T/t.ics"
	"$T/bin/echsq" add "$T/t.ics" >/dev/null
done
sleep 4
kill -TERM $DPID; wait $DPID 2>/dev/null
echo "submitted X-ECHS-UMASK 0777, 0770, 027; execution requests handed to the executor:"
grep -E '^(UID|X-ECHS-UMASK)' "$T/vtodo.log" | paste - - | sed 's/^/    /'
