#!/bin/sh
# Replay for C16/R16.5: FREQ=MONTHLY;SCALE=HIJRI;UNTIL=20000101 from 1420-01-01 AH (1999-04-17).  The stream must end with the last
# occurrence on or before 2000-01-01.  Before the fix the gregorian UNTIL was compared with hijri year numbers and never stopped the rule.
cd "$(dirname "$0")"; E=${ECHSE:-/repo/src/echse}
echo "last three occurrences before 2001: $(timeout 20 $E unroll hijri_until.ics --till 2001-01-01 | cut -f1 | tail -3 | tr '\n' ' ')"
echo "# expected: ... 1999-11-09 1999-12-09 (nothing after 2000-01-01); before the fix the list ran on to 2000-12-27"
