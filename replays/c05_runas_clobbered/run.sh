#!/bin/sh
# Replay for C05/R05.7: an event with LOCATION and X-ECHS-SHELL but without X-ECHS-SETUID must keep both attributes when read
# (echse merge prints the task as read).  Before the fix END:VEVENT replaced the whole run-as block by the calendar-level one
# whenever the event had no user: working directory and shell were silently dropped (the job then runs in the default directory).
cd "$(dirname "$0")"; E=${ECHSE:-/repo/src/echse}
echo "written: $(grep -E 'LOCATION|SHELL' event.ics | tr '\n' ' ')"
echo "read back: $($E merge event.ics | grep -E 'LOCATION|SHELL' | tr '\n' ' ')"
echo "# expected: read back shows LOCATION:/var/tmp and X-ECHS-SHELL:/bin/dash (before the fix: nothing)"
