#!/bin/sh
# Replay for suspected defect c12_sticky_nd (echsd.c run_task(): the static
# argv slot args[2] is set to "-nd" once and never reset).
#
# Usage: ./run.sh            (needs root: uses unshare -m -n -p for isolation)
#
# Isolation: the unmodified echsd binary is copied into a `mktemp -d` dir
# (echsd looks for its executor as dirname(/proc/self/exe)/echsx) and run in
# the foreground inside a private mount namespace (private dir bind-mounted
# over /var/spool => spool is /var/spool/echse in there) and a private
# network namespace (abstract socket "\0/var/run/echse/=echsd" is private).
#
# Scenario 1 (as suggested): fake echsx; task-A X-ECHS-MAX-SIMUL:1 every
#   second, each run takes 2.5 s; task-B unlimited every second.
# Scenario 2: fake echsx; task-B (unlimited, every second) runs alone for
#   3 s, then task-Z with X-ECHS-MAX-SIMUL:0 is added, fires for 2 s and is
#   cancelled again (echsq cancel); task-B keeps firing for 3 more seconds.
# Scenario 3: same as 2 but with the REAL echsx; task-B's command appends a
#   line to a file so one can see whether it is really executed.
REPO=${REPO:-/repo}

if [ "$1" != "--inner" ]; then
	T=$(mktemp -d /tmp/c12nd.XXXXXX) || exit 1
	trap 'rm -rf "$T"' EXIT INT TERM
	mkdir -p "$T/bin" "$T/fake"
	cp "$REPO/src/echsd" "$REPO/src/echsq" "$REPO/src/echsx" "$T/bin/" || exit 1
	cat > "$T/fake/echsx" <<EOX
#!/bin/sh
# fake echsx: log argv, honour -n (--no-run), otherwise "run" = sleep
PATH=/usr/bin:/bin; export PATH
LOG=\$(dirname "\$0")/../argv.log
vtodo=\$(cat)
uid=\$(printf '%s\n' "\$vtodo" | sed -n 's/^UID://p' | head -n 1)
dur=\$(printf '%s\n' "\$vtodo" | sed -n 's/^SUMMARY:sleep //p' | head -n 1)
norun=0
for a in "\$@"; do case \$a in -*n*) norun=1;; esac; done
if [ \$norun = 1 ]; then
	echo "\$(date +%s.%N) NORUN pid=\$\$ uid=\$uid argv=[echsx \$*]" >> "\$LOG"
	exit 0
fi
echo "\$(date +%s.%N) START pid=\$\$ uid=\$uid argv=[echsx \$*]" >> "\$LOG"
sleep "\${dur:-0}"
echo "\$(date +%s.%N) END   pid=\$\$ uid=\$uid" >> "\$LOG"
EOX
	chmod 755 "$T/fake/echsx"
	rc=0
	for S in 1 2 3; do
		mkdir -p "$T/spool$S"
		timeout 40 unshare -m -n -p -f --kill-child --mount-proc "$0" --inner "$T" $S || rc=1
	done
	echo
	echo "================ summary ================"
	cat "$T/summary"
	exit $rc
fi

T=$2
S=$3
ECHSQ=$T/bin/echsq
mount --bind "$T/spool$S" /var/spool || exit 1
LOG=$T/echsd.$S.log
: > "$T/argv.log"
mkdir -p "$T/run$S"
cp "$T/bin/echsd" "$T/run$S/echsd"
case $S in
1|2)	cp "$T/fake/echsx" "$T/run$S/echsx";;
3)	cp "$T/bin/echsx" "$T/run$S/echsx";;
esac
"$T/run$S/echsd" -n 2>"$LOG" &
DPID=$!
trap 'kill -TERM $DPID 2>/dev/null; pkill -f "$T/run$S/echsx" 2>/dev/null' EXIT
i=0
while ! grep -q 'echsd ready' "$LOG"; do
	i=$((i + 1)); [ $i -gt 50 ] && { echo "echsd did not start"; exit 1; }
	sleep 0.1
done

mktask() {
	# mktask FILE UID CMD [MAXSIMUL]
	{
		echo "BEGIN:VCALENDAR"
		echo "VERSION:2.0"
		echo "BEGIN:VEVENT"
		echo "UID:$2"
		echo "SUMMARY:$3"
		[ -n "$4" ] && echo "X-ECHS-MAX-SIMUL:$4"
		echo "DTSTART:$(date -u +%Y%m%dT%H%M%SZ)"
		echo "RRULE:FREQ=SECONDLY"
		echo "END:VEVENT"
		echo "END:VCALENDAR"
	} > "$1"
	echo "--- $(date +%s.%N) submitting $2:"; sed 's/^/    /' "$1"
	"$ECHSQ" add "$1"
}
stop() {
	kill -TERM $DPID; wait $DPID 2>/dev/null
	pkill -f "$T/run$S/echsx" 2>/dev/null
	trap - EXIT
}
cnt() { grep " $1 " "$T/argv.log" | grep -c "uid=$2 "; }

case $S in
1)
	echo "=================== scenario 1: task-A MAX-SIMUL:1 (2.5 s runs) + task-B unlimited, fake echsx ==================="
	mktask "$T/a.ics" task-A "sleep 2.5" 1
	mktask "$T/b.ics" task-B "sleep 0"
	sleep 6
	stop
	echo "--- echsd log (spawn decisions only)"
	grep -E 'supervis' "$LOG" | sort | uniq -c | sed 's/^/    /'
	echo "--- fake echsx log (time, event, pid, task uid, argv)"
	sort -n "$T/argv.log" | grep -v ' END ' | sed 's/^/    /'
	MAXA=$(sort -n "$T/argv.log" | grep 'uid=task-A' | awk '
		$2 == "START" {c++; if (c > m) m = c} $2 == "END" {c--} END {print m + 0}')
	echo "--- result scenario 1"
	echo "task-A: real=$(cnt START task-A) norun=$(cnt NORUN task-A) max concurrent real runs=$MAXA;  task-B: real=$(cnt START task-B) norun=$(cnt NORUN task-B)"
	echo "scenario 1 (A MAX-SIMUL:1 overlapping, B unlimited): A real=$(cnt START task-A) norun=$(cnt NORUN task-A) maxconc=$MAXA; B real=$(cnt START task-B) norun=$(cnt NORUN task-B)" >> "$T/summary"
	exit 0
	;;
2)
	echo "=================== scenario 2: task-B unlimited, then task-Z MAX-SIMUL:0 added and cancelled, fake echsx ==================="
	mktask "$T/b.ics" task-B "sleep 0"
	sleep 3
	TZ0=$(date +%s.%N)
	mktask "$T/z.ics" task-Z "sleep 0" 0
	sleep 2
	echo "--- $(date +%s.%N) cancelling task-Z"
	"$ECHSQ" cancel task-Z
	TZ1=$(date +%s.%N)
	echo "--- tasks left in the daemon (echsq next -u 0):"
	"$ECHSQ" next -u 0 | sed 's/^/    /'
	sleep 3
	stop
	echo "--- fake echsx log (time, event, pid, task uid, argv); task-Z was added at $TZ0 and cancelled at $TZ1"
	sort -n "$T/argv.log" | grep -v ' END ' | sed 's/^/    /'
	B_REAL_BEFORE=$(awk -v t=$TZ0 '$1 < t && $2 == "START" && /uid=task-B /' "$T/argv.log" | wc -l)
	B_ND_BEFORE=$(awk -v t=$TZ0 '$1 < t && $2 == "NORUN" && /uid=task-B /' "$T/argv.log" | wc -l)
	B_REAL_AFTER=$(awk -v t=$TZ1 '$1 > t && $2 == "START" && /uid=task-B /' "$T/argv.log" | wc -l)
	B_ND_AFTER=$(awk -v t=$TZ1 '$1 > t && $2 == "NORUN" && /uid=task-B /' "$T/argv.log" | wc -l)
	echo "--- result scenario 2"
	echo "task-B before task-Z existed : real runs=$B_REAL_BEFORE  -nd runs=$B_ND_BEFORE"
	echo "task-B after task-Z cancelled: real runs=$B_REAL_AFTER  -nd runs=$B_ND_AFTER"
	echo "scenario 2 (fake echsx): B before Z: real=$B_REAL_BEFORE nd=$B_ND_BEFORE; B after Z was cancelled: real=$B_REAL_AFTER nd=$B_ND_AFTER" >> "$T/summary"
	[ "$B_REAL_BEFORE" -gt 0 ] && [ "$B_ND_AFTER" -gt 0 ] && [ "$B_REAL_AFTER" -eq 0 ]
	;;
3)
	echo "=================== scenario 3: like 2, REAL echsx, task-B appends to a file ==================="
	TICKS=$T/ticks; : > "$TICKS"
	mktask "$T/b.ics" task-B "date +%s.%N >> $TICKS"
	sleep 3
	N0=$(wc -l < "$TICKS")
	mktask "$T/z.ics" task-Z "true" 0
	sleep 2
	echo "--- $(date +%s.%N) cancelling task-Z"
	"$ECHSQ" cancel task-Z
	sleep 1
	N1=$(wc -l < "$TICKS")
	sleep 3
	N2=$(wc -l < "$TICKS")
	echo "--- spawns (task-B and task-Z together) according to echsd:"
	echo "    $(grep -c 'supervising pid' "$LOG") x 'supervising pid'"
	stop
	echo "--- ticks file written by task-B's command:"
	sed 's/^/    /' "$TICKS"
	echo "--- journal written by the real echsx (/var/spool/echse/echsj_0.ics), --no-run messages:"
	grep -c 'no-run' /var/spool/echse/echsj_0.ics 2>/dev/null | sed 's/^/    count: /'
	echo "--- result scenario 3"
	echo "lines appended by task-B: in the 3 s before task-Z: $N0;  in the last 3 s (task-Z already cancelled): $((N2 - N1))"
	echo "scenario 3 (real echsx): B's command executed $N0 times in 3 s before Z; $((N2 - N1)) times in 3 s after Z was cancelled" >> "$T/summary"
	[ "$N0" -gt 0 ] && [ $((N2 - N1)) -eq 0 ]
	;;
esac
