#!/bin/sh
# Replay for C12/R12.8: a task WITHOUT X-ECHS-MAX-SIMUL must be unlimited.  Its 6-bit max_simul field carries the all-ones code 63
# ("unset", which the serialiser does not write) and echsd compared nsim < 63 like a limit: the 64th overlapping execution was
# reported NOT RUN (echsx -nd) instead of being started.
#
# Usage: ./run.sh            (needs root: uses unshare -m -n -p for isolation; takes about 75 s)
#
# Same set-up as replays/c12_off_by_one: the real echsd next to a FAKE echsx that logs START/NORUN and sleeps; one task,
# FREQ=SECONDLY, no X-ECHS-MAX-SIMUL, every run sleeps 100 s, the daemon runs for 70 s.
REPO=${REPO:-/repo}
RUNFOR=${RUNFOR:-70}

if [ "$1" != "--inner" ]; then
	T=$(mktemp -d /tmp/c12unset.XXXXXX) || exit 1
	trap 'rm -rf "$T"' EXIT INT TERM
	mkdir -p "$T/bin" "$T/spool"
	cp "$REPO/src/echsd" "$REPO/src/echsq" "$T/bin/" || exit 1
	cat > "$T/bin/echsx" <<EOX
#!/bin/sh
PATH=/usr/bin:/bin; export PATH
LOG=\$(dirname "\$0")/../argv.log
vtodo=\$(cat)
norun=0
for a in "\$@"; do case \$a in -*n*) norun=1;; esac; done
if [ \$norun = 1 ]; then
	echo "\$(date +%s.%N) NORUN pid=\$\$ argv=[echsx \$*]" >> "\$LOG"
	exit 0
fi
echo "\$(date +%s.%N) START pid=\$\$ argv=[echsx \$*]" >> "\$LOG"
sleep 100
EOX
	chmod 755 "$T/bin/echsx"
	timeout 120 unshare -m -n -p -f --kill-child --mount-proc "$0" --inner "$T"
	rc=$?
	exit $rc
fi

T=$2
mount --bind "$T/spool" /var/spool || exit 2
LOG=$T/echsd.log
: > "$T/argv.log"
"$T/bin/echsd" -n 2>"$LOG" &
DPID=$!
trap 'kill -TERM $DPID 2>/dev/null; pkill -f "$T/bin/echsx" 2>/dev/null' EXIT
i=0
while ! grep -q 'echsd ready' "$LOG"; do
	i=$((i + 1)); [ $i -gt 50 ] && { echo "echsd did not start"; exit 2; }
	sleep 0.1
done
cat > "$T/task.ics" <<EOT
BEGIN:VCALENDAR
VERSION:2.0
BEGIN:VEVENT
UID:task-unlimited
SUMMARY:sleep 100
DTSTART:$(date -u +%Y%m%dT%H%M%SZ)
RRULE:FREQ=SECONDLY
END:VEVENT
END:VCALENDAR
EOT
"$T/bin/echsq" add "$T/task.ics"
sleep "$RUNFOR"
kill -TERM $DPID; wait $DPID 2>/dev/null
pkill -f "$T/bin/echsx" 2>/dev/null
trap - EXIT
NSTART=$(grep -c ' START ' "$T/argv.log")
NNORUN=$(grep -c ' NORUN ' "$T/argv.log")
echo "task without X-ECHS-MAX-SIMUL, every execution outlives the test: real runs started: $NSTART, occurrences reported NOT RUN (-nd): $NNORUN"
grep -m 2 'unsupervised' "$LOG" | sed 's/^/    echsd: /'
echo "# expected: no occurrence is reported NOT RUN (unset = unlimited); before the fix the runs stop being started at 63 concurrent executions"
[ "$NNORUN" -eq 0 ]
