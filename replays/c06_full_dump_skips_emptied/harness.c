/* harness: drives the checkpoint / reload code of echsd.c directly
 *
 * usage: harness SPOOLDIR CMD...
 *   add:UID:NAME      user UID submits task NAME (own connection)
 *   cancel:UID:NAME   user UID cancels task NAME (own connection)
 *   chkpnt            what the 60s timer does
 *   shutdown          what free_echsd() does (final checkpoint)
 *   load              what echsd_inject_queues() does at start
 *   dump              print "OWNER NAME" for every task in the table
 *   failrename:N      make the N-th renameat() from now fail with EIO
 *   failopen:N        make the N-th truncating openat() of a dot-file from now fail with EMFILE (added for the replays)
 *   dierename:N       _exit(0) right before the N-th renameat() from now
 */
#if defined HAVE_CONFIG_H
# include "config.h"
#endif
#include <stdlib.h>
#include <unistd.h>
#include <stdint.h>
#include <stdarg.h>
#include <string.h>
#include <stdio.h>
#include <stdbool.h>
#include <errno.h>
#include <signal.h>
#include <limits.h>
#include <time.h>
#include <fcntl.h>
#include <sys/stat.h>
#include <sys/socket.h>
#include <sys/un.h>
#include <dirent.h>
#include <sys/sendfile.h>
#include <paths.h>
#include <spawn.h>
#include <pwd.h>
#include <grp.h>
#include <ev.h>

static long h_failrename, h_dierename, h_failopen;

static int
h_openat(int dfd, const char *fn, int fl, ...)
{
/* failopen:N makes the N-th truncating openat() of a dot-file from now fail with EMFILE */
	if ((fl & O_TRUNC) && fn[0] == '.' && h_failopen > 0 && !--h_failopen) {
		errno = EMFILE;
		return -1;
	}
	return openat(dfd, fn, fl, 0600);
}

static int
h_renameat(int ofd, const char *o, int nfd, const char *n)
{
	if (h_dierename > 0 && !--h_dierename) {
		_exit(0);
	}
	if (h_failrename > 0 && !--h_failrename) {
		errno = EIO;
		return -1;
	}
	return renameat(ofd, o, nfd, n);
}

static struct passwd*
h_getpwuid(uid_t u)
{
/* every uid in 1000..1999 exists, regardless of the machine's passwd */
	static struct passwd pw;
	static char nam[32];

	if (u < 1000U || u > 1999U) {
		return NULL;
	}
	snprintf(nam, sizeof(nam), "u%u", (unsigned)u);
	pw.pw_name = nam;
	pw.pw_uid = u;
	pw.pw_gid = u;
	pw.pw_dir = (char*)"/";
	pw.pw_shell = (char*)"/bin/sh";
	return &pw;
}

#define renameat	h_renameat
#define openat		h_openat
#define getpwuid	h_getpwuid
#define main		echsd_main
#include "echsd.c"
#undef main
#undef renameat
#undef openat
#undef getpwuid

static void
h_submit(struct _echsd_s *ctx, const char *buf, size_t len, uid_t u)
{
	ical_parser_t pp = NULL;
	int nul = open("/dev/null", O_WRONLY);

	if (echs_evical_push(&pp, buf, len) < 0) {
		fputs("harness: push failed\n", stderr);
		exit(2);
	}
	(void)cmd_ical(ctx->loop, nul, &pp, (ncred_t){.u = u, .g = u});
	if (pp != NULL) {
		echs_instruc_t ins = echs_evical_last_pull(&pp);
		if (ins.v == INSVERB_SCHE && ins.t != NULL) {
			free_echs_task(ins.t);
		}
	}
	close(nul);
	return;
}

static int
cmpstr(const void *a, const void *b)
{
	return strcmp(*(const char*const*)a, *(const char*const*)b);
}

int
main(int argc, char *argv[])
{
	static char buf[4096];
	struct _echsd_s *ctx;

	if (argc < 2) {
		return 2;
	}
	echs_log = echs_errlog;
	meself.uid = 0;
	meself.gid = 0;
	meself.pid = getpid();
	if ((qdirfd = open(argv[1], O_RDONLY)) < 0) {
		perror("harness: spool");
		return 2;
	}
	if ((ctx = make_echsd()) == NULL) {
		return 2;
	}
	for (int i = 2; i < argc; i++) {
		char *a = argv[i];

		if (!strncmp(a, "add:", 4)) {
			unsigned u = strtoul(a + 4, &a, 10);
			int n = snprintf(buf, sizeof(buf), "\
BEGIN:VCALENDAR\n\
VERSION:2.0\n\
METHOD:PUBLISH\n\
BEGIN:VEVENT\n\
UID:%s\n\
SUMMARY:job %s\n\
LOCATION:/tmp\n\
DESCRIPTION:/bin/true\n\
DTSTART:20990101T000000Z\n\
RRULE:FREQ=YEARLY\n\
END:VEVENT\n\
END:VCALENDAR\n", a + 1, a + 1);
			h_submit(ctx, buf, n, u);
		} else if (!strncmp(a, "cancel:", 7)) {
			unsigned u = strtoul(a + 7, &a, 10);
			int n = snprintf(buf, sizeof(buf), "\
BEGIN:VCALENDAR\n\
VERSION:2.0\n\
METHOD:CANCEL\n\
BEGIN:VEVENT\n\
UID:%s\n\
STATUS:CANCELLED\n\
END:VEVENT\n\
END:VCALENDAR\n", a + 1);
			h_submit(ctx, buf, n, u);
		} else if (!strcmp(a, "chkpnt")) {
			cptim_cb(ctx->loop, &ctx->cptim, 0);
		} else if (!strcmp(a, "shutdown")) {
			free_echsd(ctx);
			ctx = NULL;
			break;
		} else if (!strcmp(a, "load")) {
			echsd_inject_queues(ctx, argv[1]);
		} else if (!strcmp(a, "dump")) {
			char **l = calloc(ztask_ht + 1U, sizeof(*l));
			size_t nl = 0U;

			for (size_t j = 0U; j < ztask_ht; j++) {
				if (!task_ht[j].oid) {
					continue;
				}
				l[nl] = malloc(256U);
				snprintf(l[nl++], 256U, "%u %s",
					 (unsigned)echs_task_owner(task_ht[j].t->t),
					 obint_name(task_ht[j].oid));
			}
			qsort(l, nl, sizeof(*l), cmpstr);
			for (size_t j = 0U; j < nl; j++) {
				puts(l[j]);
				free(l[j]);
			}
			free(l);
		} else if (!strncmp(a, "failopen:", 9)) {
			h_failopen = atol(a + 9);
		} else if (!strncmp(a, "failrename:", 11)) {
			h_failrename = atol(a + 11);
		} else if (!strncmp(a, "dierename:", 10)) {
			h_dierename = atol(a + 10);
		} else {
			fprintf(stderr, "harness: unknown command %s\n", a);
			return 2;
		}
	}
	fflush(stdout);
	_exit(0);
}
