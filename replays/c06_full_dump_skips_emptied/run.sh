#!/bin/sh
# Replay for C06/R06.7: the all-users dump (taken when 16 or more change notices arrived since the last checkpoint) writes a file only
# for users who still own a task.  A user who cancelled her last task in such a window keeps her old queue file, and the cancelled
# task is scheduled again after a restart.  The harness #includes the real src/echsd.c and drives its static functions
# (client commands through cmd_ical(), chkpnt(), free_echsd()'s final checkpoint, echsd_inject_queues() in a second process).
cd "$(dirname "$0")"; R=${ECHSE_REPO:-/repo}; S=$R/src
W=$(mktemp -d) || exit 2; trap 'rm -rf "$W"' EXIT
LIB="instant range dt-strpf module hash intern state task strlst bufpool event evstrm evical evrrul evmrul evfilt tzob scale shift tzraw bitint echse-genuid"
SRCS="$S/logger.c"; for f in $LIB; do SRCS="$SRCS $S/$f.c"; done
sed "s#\"echsd.c\"#\"$S/echsd.c\"#" harness.c > $W/harness.c
gcc -std=c11 -O0 -w -DHAVE_CONFIG_H -D_POSIX_C_SOURCE=200809L -D_XOPEN_SOURCE=700 -D_DEFAULT_SOURCE -I"$S" -I"$R" -o "$W/h" "$W/harness.c" $SRCS -lev -lm -lltdl -ldl 2>$W/cc.log || { cat $W/cc.log; exit 2; }
mkdir $W/spool
adds=""; i=1; while [ $i -le 16 ]; do adds="$adds add:1001:t$i"; i=$((i+1)); done
"$W/h" $W/spool add:1001:alpha add:1002:beta chkpnt cancel:1002:beta $adds shutdown 2>>$W/log
echo "after restart the daemon schedules for user 1002: '$("$W/h" $W/spool load dump 2>>$W/log | grep '^1002' | tr '\n' ' ')'"
echo "# expected: '' (beta was cancelled and the cancellation acknowledged before the clean shutdown); defect: '1002 beta'"
