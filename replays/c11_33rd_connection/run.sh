#!/bin/sh
# Replay for C11/R11.8: the daemon keeps one record per client connection (peer credentials, request buffer, parser state), 64 of them,
# and a 64-bit mask of the free ones.  make_conn() looked for a free record in the lower half of the mask and, failing that, in the
# upper half — but forgot to add 32 to what it found there.  With 32 connections open the 33rd peer was given record 0, which the first
# peer is still using: its credentials and parser state are overwritten, requests of one user run under another user's identity.
#
# Usage: ./run.sh        (REPO=/repo by default; compiles the daemon's own echsd.c with only main() renamed, runs nothing of it
#                         but make_conn()/free_conn())
REPO=${REPO:-/repo}
W=$(mktemp -d /tmp/c11conn.XXXXXX) || exit 2
trap 'rm -rf "$W"' EXIT INT TERM
LIBSRC="instant range dt-strpf module hash intern state task strlst bufpool event evstrm evical evrrul evmrul evfilt tzob scale shift
 tzraw bitint echse-genuid logger"
LIBC=$(for s in $LIBSRC; do echo "$REPO/src/$s.c"; done)
cat > "$W/h.c" <<'EOC'
#define main echsd_main
#include "echsd.c"
#undef main
int
main(void)
{
	struct echs_conn_s *c[64];
	int bad = 0;

	for (int i = 0; i < 40; i++) {
		c[i] = make_conn();
		if (c[i] == NULL) {
			printf("connection %d: refused\n", i + 1);
			bad++;
			continue;
		}
		/* what sock_conn_cb() does: remember who the peer is */
		c[i]->cred = (ncred_t){1000 + i, 1000 + i};
		for (int j = 0; j < i; j++) {
			if (c[j] == c[i]) {
				printf("connection %d got the record of connection %d, which is still open\n", i + 1, j + 1);
				bad++;
			}
		}
	}
	for (int i = 0; i < 40; i++) {
		if (c[i] != NULL && c[i]->cred.u != (uid_t)(1000 + i)) {
			printf("connection %d now runs with uid %u instead of %u\n", i + 1, (unsigned)c[i]->cred.u, 1000 + i);
			bad++;
		}
	}
	printf("%s\n", bad ? "FAIL" : "40 concurrent connections: 40 distinct records, every peer keeps its own credentials");
	return bad != 0;
}
EOC
gcc -std=c11 -w -O0 -DHAVE_CONFIG_H -D_POSIX_C_SOURCE=200809L -D_XOPEN_SOURCE=700 -D_DEFAULT_SOURCE -I"$REPO/src" -I"$W" \
	-o "$W/h" "$W/h.c" $LIBC -lev -lltdl -lm -ldl 2>"$W/cc.log" || { cat "$W/cc.log"; echo "cannot build the harness"; exit 2; }
"$W/h"
