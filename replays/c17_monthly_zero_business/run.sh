#!/bin/sh
# Replay for C17/R17.5: SHIFT=0B moves a weekend date to the Monday behind it.  The last day of December 2022 is a Saturday, so
# FREQ=MONTHLY;BYMONTHDAY=-1;SHIFT=0B unrolled from 2023-01-01 must start with Monday 2023-01-02 (the shifted December date), as the
# same rule with SHIFT=1B and the YEARLY form do.  The monthly filler only started a month early for shifts worth at least one day.
ECHSE=${ECHSE:-/repo/src/echse}
out=$("$ECHSE" unroll -e "FREQ=MONTHLY;BYMONTHDAY=-1;SHIFT=0B;COUNT=3" --from 2023-01-01 | tr -d '\t' | tr '\n' ' ')
echo "MONTHLY;BYMONTHDAY=-1;SHIFT=0B from 2023-01-01: $out"
ref=$("$ECHSE" unroll -e "FREQ=YEARLY;BYMONTH=12;BYMONTHDAY=31;SHIFT=0B;COUNT=1" --from 2023-01-01 | tr -d '\t' | tr '\n' ' ')
echo "YEARLY;BYMONTH=12;BYMONTHDAY=31;SHIFT=0B from 2023-01-01: $ref"
echo "# expected: both start with 2023-01-02"
case "$out" in "2023-01-02 "*) exit 0;; *) exit 1;; esac
