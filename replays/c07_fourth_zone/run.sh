#!/bin/sh
# Replay for C07/R07.1 (also C05: the TZID is not written back): the zone handle on an instant is the index into the interning table,
# packed into the bits of ECHS_DMASK (0xf0c0).  make_tzob() puts index bits 2..5 at bits 12..15 (<< 10), make_size() read them from
# bits 10..13 (>> 8): every zone from the fourth distinct one of a process on read back as another slot — an empty one, so the event
# was treated as UTC.  And the table admitted 64 zones although six bits name 63: the 64th got handle 0, which means "no zone".
cd "$(dirname "$0")"; E=${ECHSE:-/repo/src/echse}
rc=0
out=$($E unroll --from 2020-01-01 --till 2020-01-10 five_zones.ics)
echo "$out"
echo "# expected: sydney 2020-01-04T01:00:00 (UTC+11), kolkata 2020-01-05T06:30:00 (UTC+5:30); before the fix both at 12:00:00 (taken for UTC)"
echo "$out" | grep -q "2020-01-04T01:00:00	sydney" || rc=1
echo "$out" | grep -q "2020-01-05T06:30:00	kolkata" || rc=1
# 70 zones, all at 12:00 local on 2020-06-15; only UTC+0 zones may come out at 12:00:00Z (none in the list in June... Europe/London is +1,
# Europe/Lisbon +1, Europe/Dublin +1); zones beyond the table's capacity are refused by design (treated as UTC): allow those after the 63rd
missing=0
for z in $(grep '^SUMMARY:' seventy_zones.ics | cut -d: -f2); do
	[ -e /usr/share/zoneinfo/$z ] || { echo "# zone $z not installed, replay not meaningful"; missing=1; }
done
out=$($E unroll --from 2020-06-01 --till 2020-06-30 seventy_zones.ics)
k=0; bad=""
for z in $(grep '^SUMMARY:' seventy_zones.ics | cut -d: -f2); do
	k=$((k + 1))
	t=$(echo "$out" | grep "	$z\$" | cut -f1)
	want=$(date -u -d "TZ=\"$z\" 2020-06-15 12:00:00" +%Y-%m-%dT%H:%M:%S)
	if [ $k -le 63 ] && [ "$t" != "$want" ]; then bad="$bad $k:$z($t,want:$want)"; fi
done
echo "# zones 1..63 whose event does not come out at the UTC instant of 12:00 local (per date(1)):${bad:- none}"
[ -z "$bad" ] || rc=1
[ $missing = 0 ] || rc=1
exit $rc
