#!/bin/sh
# Replay for C06/R06.11: the all-users checkpoint keeps one node per user it has seen in an array and links the nodes into a trie
# (the trie stores pointers to them).  With a 17th user the array is grown by realloc(): when that moves it, the trie points into
# freed memory, and the very next seenp() walks it.  If a look-up misses, the user's file is opened a second time with O_TRUNC in the
# middle of the dump — what had been written for him is gone.  The daemon's own echsd.c (only main() renamed) is run under valgrind
# with tasks of 20 distinct users and chkpnta() called once; valgrind must stay silent.
#
# Usage: ./run.sh     (REPO=/repo by default; needs valgrind and at least 20 accounts in /etc/passwd; ~20 s)
REPO=${REPO:-/repo}
W=$(mktemp -d /tmp/c06seen.XXXXXX) || exit 2
trap 'rm -rf "$W"' EXIT INT TERM
mkdir "$W/spool"
LIBSRC="instant range dt-strpf module hash intern state task strlst bufpool event evstrm evical evrrul evmrul evfilt tzob scale shift
 tzraw bitint echse-genuid logger"
LIBC=$(for s in $LIBSRC; do echo "$REPO/src/$s.c"; done)
cat > "$W/h.c" <<'EOC'
#define main echsd_main
#include "echsd.c"
#undef main
static struct _echsd_s *ctx;
static int
submit(uid_t u, int k)
{
	static char buf[4096];
	struct echs_cmdparam_s param = {ECHS_CMD_UNK};
	struct passwd *pw = getpwuid(u);
	int nul, n;

	if (pw == NULL) {
		return -1;
	}
	n = snprintf(buf, sizeof(buf), "BEGIN:VCALENDAR\nVERSION:2.0\nMETHOD:PUBLISH\nBEGIN:VEVENT\nUID:seen-%u-%d\n"
		     "SUMMARY:true\nDTSTART:20900101T000000Z\nEND:VEVENT\nEND:VCALENDAR\n", (unsigned)u, k);
	nul = open("/dev/null", O_WRONLY);
	if (feed_cmd(&param, buf, n) != ECHS_CMD_ICAL) {
		return -1;
	}
	(void)cmd_ical(ctx->loop, nul, &param.ical, (ncred_t){pw->pw_uid, pw->pw_gid});
	feed_cmd(&param, buf, 0U);
	(void)cmd_ical(ctx->loop, nul, &param.ical, (ncred_t){pw->pw_uid, pw->pw_gid});
	shut_cmd(&param);
	close(nul);
	return 0;
}
int
main(int argc, char *argv[])
{
	struct passwd *pw;
	int nu = 0;

	block_sigs();
	echs_log = echs_errlog;
	meself.uid = geteuid();
	meself.gid = getegid();
	meself.pid = getpid();
	echsx = "/bin/false";
	if ((qdirfd = open(argv[1], O_RDONLY)) < 0 || (ctx = make_echsd()) == NULL) {
		return 2;
	}
	setpwent();
	while (nu < 20 && (pw = getpwent()) != NULL) {
		uid_t u = pw->pw_uid;
		if (submit(u, 1) == 0 && submit(u, 2) == 0) {
			nu++;
		}
		setpwent();
		for (int i = 0; i < nu && getpwent(); i++);
	}
	fprintf(stderr, "tasks of %d users, calling the all-users checkpoint\n", nu);
	return chkpnta() < 0 || nu < 17 ? 3 : 0;
}
EOC
gcc -std=c11 -w -g -O0 -DHAVE_CONFIG_H -D_POSIX_C_SOURCE=200809L -D_XOPEN_SOURCE=700 -D_DEFAULT_SOURCE -I"$REPO/src" -I"$W" \
	-o "$W/h" "$W/h.c" $LIBC -lev -lltdl -lm -ldl 2>"$W/cc.log" || { cat "$W/cc.log"; echo "cannot build the harness"; exit 2; }
valgrind -q --error-exitcode=9 "$W/h" "$W/spool" > "$W/out" 2> "$W/err"; rc=$?
grep -c "Invalid read\|Invalid write" "$W/err" | sed 's/^/valgrind: invalid accesses reported: /'
grep -m 3 -A 6 "Invalid read" "$W/err" | grep -E "Invalid|at 0x|by 0x|free|realloc" | head -8
grep "tasks of" "$W/err"
n=$(ls "$W/spool" | grep -c '^echsq_')
echo "queue files written: $n"
echo "# expected: no invalid access, one queue file per user"
[ $rc = 0 ]
