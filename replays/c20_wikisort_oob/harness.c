/* 514 copies of a later instant followed by 514 copies of an earlier one */
#include "config.h"
#include <stdio.h>
#include <stdlib.h>
#include "instant.h"
int main(int argc, char **argv)
{
	size_t half = argc > 1 ? atoi(argv[1]) : 514, n = 2 * half;
	echs_instant_t *a = malloc(n * sizeof(*a));
	for (size_t i = 0; i < n; i++)
		a[i] = (echs_instant_t){.y = 2020, .m = 1, .d = i < half ? 2 : 1, .H = 0, .M = 0, .S = 0, .ms = ECHS_ALL_SEC};
	echs_instant_sort(a, n);
	for (size_t i = 1; i < n; i++) if (echs_instant_lt_p(a[i], a[i-1])) { puts("UNSORTED"); return 1; }
	puts("sorted");
	return 0;
}
