#!/bin/sh
# Replay for C20/R20.4: echs_instant_sort() on 514 copies of a later instant followed by 514 copies of an earlier one.
# Each half holds a single distinct value, so the internal buffer has 1 element, block_size = 515 exceeds the A half,
# no whole A block exists, and the rolling-block loop ran BlockSwap(array, blockA.start, minA, 515) past the end of the array
# (heap-buffer-overflow in BlockSwap <- WikiSort; SIGSEGV without ASan).  Library-level replay (the property observes library calls).
cd "$(dirname "$0")"; R=${ECHSE_REPO:-/repo}
t=$(mktemp -d) || exit 2
cc -std=gnu11 -D_GNU_SOURCE -O1 -g -fsanitize=address -w -I$R/src -I$R -DHAVE_CONFIG_H -o $t/h harness.c $R/src/instant.c -lm || exit 2
for half in 514 1023 2048; do printf '%s+%s elements: ' $half $half; ASAN_OPTIONS=detect_leaks=0 $t/h $half 2>&1 | grep -E "sorted|UNSORTED|ERROR" | head -1; done
rm -rf $t
echo "# expected: 'sorted' three times; before the fix: AddressSanitizer: heap-buffer-overflow in BlockSwap (wikisort.c:211) called from WikiSort"
