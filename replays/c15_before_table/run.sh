#!/bin/sh
# Replay for C15/R15.4: a Gregorian day before the Umm al-Qura table's first month (1356-01-01 = 1937-03-14) must be rejected
# when converted to the table calendar, not mapped to a wrong Hijri day.
cd "$(dirname "$0")"; E=${ECHSE:-/repo/src/echse}
for f in before_table inside_table; do echo "$f: $(grep DTSTART $f.ics) -> '$($E unroll $f.ics | cut -f1 | tr '\n' ' ')'"; done
echo "# expected: before_table -> '' (1937-01-10 lies before the table); before the fix it printed 1355-12-01 (the table's header word read as a month start)"
