#!/bin/sh
# Replay for C05/R05.6 (= C06/R06.6): a single task whose iCalendar text exceeds the 4096-byte write buffer (seven 900-byte lines)
# must be written completely.  Before the fix fdprintf() re-used its consumed va_list after the flush: SIGSEGV on the first %s,
# output truncated at 3802 bytes (echse merge; the same writer serves echsq and the daemon's checkpoints).
cd "$(dirname "$0")"; E=${ECHSE:-/repo/src/echse}
$E merge big_task.ics > /tmp/c05_fdp.$$; rc=$?
echo "exit status $rc, $(wc -c < /tmp/c05_fdp.$$) bytes written, $(grep -c '^ATTENDEE' /tmp/c05_fdp.$$) of 4 ATTENDEE lines, END:VCALENDAR present: $(grep -c '^END:VCALENDAR' /tmp/c05_fdp.$$)"
rm -f /tmp/c05_fdp.$$
echo "# expected: exit status 0, 4 of 4 ATTENDEE lines, END:VCALENDAR present: 1   (before the fix: exit status 139, 3802 bytes, 1 of 4)"
