#!/bin/sh
# Replay for C08/C18: durations beyond 49.7 days and signed spellings, as echse reads them and writes them back.
cd "$(dirname "$0")"; E=${ECHSE:-/repo/src/echse}
for f in dur_p60d dtend_60d dur_plus dur_1200h dur_8w; do
  printf '%-12s %-28s -> %s\n' $f "$(grep -E '^(DURATION|DTEND)' $f.ics)" "$($E merge $f.ics | grep DURATION)"
done
echo "# expected: P60D, P60D, PT1H, P50D (=PT1200H), P56D"
