#!/bin/sh
# Replay for C13/R13.6: an execution request whose X-ECHS-SHELL does not exist.  posix_spawn() returns ENOENT (a positive number);
# the journal entry must not claim that the job ran and exited with status 0.
ECHSX=${ECHSX:-/repo/src/echsx}
T=$(mktemp -d); trap 'rm -rf "$T"' EXIT
cat > $T/req.ics <<EOT
BEGIN:VCALENDAR
VERSION:2.0
BEGIN:VTODO
UID:c13-spawn
SUMMARY:echo hello
X-ECHS-SETUID:$(id -u)
X-ECHS-SETGID:$(id -g)
X-ECHS-SHELL:/nonexistent/shell
LOCATION:/tmp
X-ECHS-MAIL-RUN:0
X-ECHS-MAIL-OUT:0
X-ECHS-MAIL-ERR:0
END:VTODO
END:VCALENDAR
EOT
timeout 20 "$ECHSX" -v < $T/req.ics > $T/out 2> $T/err; rc=$?
echo "echsx exit status: $rc; journal: '$(grep -E 'X-EXIT-STATUS|X-SIGNAL' $T/out | tr '\n' ' ')'"
echo "log: $(head -2 $T/err | tr '\n' '|')"
echo "# expected: a 'cannot spawn' error and no journal entry claiming an exit status (set-up failures are not journalled);"
echo "# before the fix: exit status 0, journal 'X-EXIT-STATUS:0', log 'starting ... -> process 0 / process 0 finished with 0'"
