#!/bin/sh
# Replay for C12/R12.9: cancelling a task while one of its executions is still running handed the task record back to the pool although
# the child watcher of that execution still pointed at it.  The pool is LIFO: the next task submitted gets the same record, and when
# the old execution exits chld_cb() decrements the NEW task's run counter — 0 - 1 wraps, the new task looks as if 4294967295 of its
# executions were running and, with a limit of 1, is reported NOT RUN for ever.
#
# Usage: ./run.sh            (needs root: uses unshare -m -n -p for isolation; takes about 25 s)
REPO=${REPO:-/repo}

if [ "$1" != "--inner" ]; then
	T=$(mktemp -d /tmp/c12cancel.XXXXXX) || exit 1
	trap 'rm -rf "$T"' EXIT INT TERM
	mkdir -p "$T/bin" "$T/spool"
	cp "$REPO/src/echsd" "$REPO/src/echsq" "$T/bin/" || exit 1
	cat > "$T/bin/echsx" <<EOX
#!/bin/sh
PATH=/usr/bin:/bin; export PATH
LOG=\$(dirname "\$0")/../argv.log
vtodo=\$(cat)
what=\$(printf '%s\n' "\$vtodo" | sed -n 's/^SUMMARY://p' | head -1)
norun=0
for a in "\$@"; do case \$a in -*n*) norun=1;; esac; done
if [ \$norun = 1 ]; then
	echo "\$(date +%s.%N) NORUN \$what" >> "\$LOG"
	exit 0
fi
echo "\$(date +%s.%N) START \$what" >> "\$LOG"
case "\$what" in *long*) sleep 6;; *) sleep 0.2;; esac
echo "\$(date +%s.%N) END   \$what" >> "\$LOG"
EOX
	chmod 755 "$T/bin/echsx"
	timeout 90 unshare -m -n -p -f --kill-child --mount-proc "$0" --inner "$T"
	exit $?
fi

T=$2
mount --bind "$T/spool" /var/spool || exit 2
LOG=$T/echsd.log
: > "$T/argv.log"
"$T/bin/echsd" -n 2>"$LOG" &
DPID=$!
trap 'kill -TERM $DPID 2>/dev/null; pkill -f "$T/bin/echsx" 2>/dev/null' EXIT
i=0
while ! grep -q 'echsd ready' "$LOG"; do
	i=$((i + 1)); [ $i -gt 50 ] && { echo "echsd did not start"; exit 2; }
	sleep 0.1
done
mk() {
cat > "$T/$1.ics" <<EOT
BEGIN:VCALENDAR
VERSION:2.0
BEGIN:VEVENT
UID:$1
SUMMARY:$2
X-ECHS-MAX-SIMUL:1
DTSTART:$(date -u +%Y%m%dT%H%M%SZ)
RRULE:FREQ=SECONDLY;INTERVAL=$3
END:VEVENT
END:VCALENDAR
EOT
}
mk task-a "long job A" 1
"$T/bin/echsq" add "$T/task-a.ics"
i=0
while ! grep -q 'START long job A' "$T/argv.log"; do
	i=$((i + 1)); [ $i -gt 100 ] && { echo "A never started"; exit 2; }
	sleep 0.1
done
sleep 1
"$T/bin/echsq" cancel task-a
mk task-b "short job B" 2
"$T/bin/echsq" add "$T/task-b.ics"
sleep 14
kill -TERM $DPID; wait $DPID 2>/dev/null
pkill -f "$T/bin/echsx" 2>/dev/null
trap - EXIT
sed 's/^[0-9.]* //' "$T/argv.log" | uniq -c
grep -m 2 -E 'unsupervised|inconsistent' "$LOG" | sed 's/^/    echsd: /'
ENDA=$(grep -n 'END   long job A' "$T/argv.log" | cut -d: -f1)
NORUNB=$(grep -c 'NORUN short job B' "$T/argv.log")
STARTB_AFTER=$(tail -n +"${ENDA:-1}" "$T/argv.log" | grep -c 'START short job B')
echo "B (limit 1, 0.2 s job every 2 s): reported NOT RUN $NORUNB times; started $STARTB_AFTER times after A's cancelled execution had ended"
echo "# expected: B is never NOT RUN (its executions never overlap) and keeps being started; before the fix every occurrence of B after the"
echo "# end of A's execution is NOT RUN (unsupervised run 4294967295/1)"
[ "$NORUNB" -eq 0 ] && [ "$STARTB_AFTER" -ge 2 ]
