#!/bin/sh
# Replay for C02: four daily events (Jan 1..4 2015 00:00Z, COUNT=4); expected output per RFC 5545 given after '#'.
cd "$(dirname "$0")"
E=${ECHSE:-/repo/src/echse}
for f in a_zero_dur_named b_unnamed_inside_span_after c_stale_exception_meets d_unnamed_inside_span_before; do
  echo "== $f: $(grep -E '^(DURATION|EXDATE)' $f.ics | tr '\n' ' ')"
  $E unroll $f.ics | cut -f1 | tr '\n' ' '; echo
done
echo "# expected: a: Jan 1,3,4 (Jan 2 excluded)   b: Jan 1,2,3,4 (EXDATE names no occurrence)   c: Jan 1,3,4   d: Jan 1,2,3,4"
