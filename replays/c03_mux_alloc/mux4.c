/* Library user muxing four streams with the public echs_evstrm_mux(): the pointer array is malloc'd as 16 + 8 bytes. */
#include <stdio.h>
#include <unistd.h>
#include <fcntl.h>
#include "echse.h"
#include "evical.h"
#include "evstrm.h"
#include "instruc.h"
int main(int argc, char *argv[])
{
	char buf[65536];
	ical_parser_t pp = NULL;
	echs_evstrm_t s[8];
	size_t ns = 0;
	int fd = open(argv[1], O_RDONLY);
	ssize_t nrd;
	while ((nrd = read(fd, buf, sizeof(buf))) > 0) {
		echs_evical_push(&pp, buf, nrd);
		for (echs_instruc_t ins; (ins = echs_evical_pull(&pp)).v == INSVERB_SCHE;)
			if (ins.t != NULL && ins.t->strm && ns < 8) s[ns++] = ins.t->strm;
	}
	(void)echs_evical_last_pull(&pp);
	echs_evstrm_t m = echs_evstrm_mux(s[0], s[1], s[2], s[3], NULL);
	size_t n = 0;
	for (echs_event_t e; !echs_event_0_p(e = echs_evstrm_pop(m)); n++);
	printf("merged %zu occurrences of %zu streams\n", n, ns);
	return 0;
}
