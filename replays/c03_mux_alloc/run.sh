#!/bin/sh
# Replay for C03/R03.3: valgrind reports invalid writes past the 24-byte block when 4 streams are muxed.
cd "$(dirname "$0")"
T=$(mktemp -d); trap 'rm -rf "$T"' EXIT
cc -g -std=gnu11 -D_GNU_SOURCE -I/repo/src -I/repo -DHAVE_CONFIG_H mux4.c /repo/src/.libs/libechse.a -lm -lltdl -ldl -o "$T/mux4" 2>/dev/null || \
cc -g -std=gnu11 -D_GNU_SOURCE -I/repo/src -I/repo -DHAVE_CONFIG_H mux4.c /repo/src/.libs/libechse.a -lm -ldl -o "$T/mux4"
valgrind -q "$T/mux4" four.ics 2>&1 | grep -E "Invalid|alloc'd|echs_evstrm_mux|merged" | head -8
