#!/bin/sh
# Replay for C09/R09.3: rules whose INTERVAL can never meet a BYxxx part; a conforming implementation answers end-of-stream.
cd "$(dirname "$0")"; E=${ECHSE:-/repo/src/echse}
for f in dly Hly Mly Sly; do
  timeout 5 $E unroll $f.ics >/dev/null 2>&1; rc=$?
  echo "$f: $(grep RRULE $f.ics) -> exit $rc $( [ $rc = 124 ] && echo '(killed by timeout: never returns)' )"
done
