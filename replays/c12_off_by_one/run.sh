#!/bin/sh
# Replay for suspected defect c12_off_by_one (echsd.c task_cb()/run_task():
# X-ECHS-MAX-SIMUL:N does not limit the number of concurrent runs).
#
# Usage: ./run.sh            (needs root: uses unshare -m -n -p for isolation)
#
# The unmodified echsd binary is copied next to a FAKE `echsx' (echsd looks
# for its executor as dirname(/proc/self/exe)/echsx).  The fake executor logs
# START/END/NORUN lines with its argv and the UID of the VTODO it got on
# stdin and then sleeps for the number of seconds given in SUMMARY:sleep N.
# echsd runs in the foreground inside a private mount namespace (a dir below
# `mktemp -d` bind-mounted over /var/spool, so the spool is
# /var/spool/echse in there) and a private network namespace (the daemon's
# abstract unix socket "\0/var/run/echse/=echsd" is invisible outside).
#
# For N in 1 2 3: one task, FREQ=SECONDLY, X-ECHS-MAX-SIMUL:N, every run
# takes 4.5 s, daemon runs for 8 s.  We report the maximum number of fake
# executors that were running for real (no -n/-nd in argv) at the same time,
# once computed from the executors' own START/END log and once by sampling
# the process table with pgrep every 0.25 s.
REPO=${REPO:-/repo}
RUNFOR=${RUNFOR:-8}

if [ "$1" != "--inner" ]; then
	T=$(mktemp -d /tmp/c12obo.XXXXXX) || exit 1
	trap 'rm -rf "$T"' EXIT INT TERM
	mkdir -p "$T/bin"
	cp "$REPO/src/echsd" "$REPO/src/echsq" "$T/bin/" || exit 1
	cat > "$T/bin/echsx" <<EOX
#!/bin/sh
# fake echsx: log argv, honour -n (--no-run), otherwise "run" = sleep
PATH=/usr/bin:/bin; export PATH
LOG=\$(dirname "\$0")/../argv.log
vtodo=\$(cat)
uid=\$(printf '%s\n' "\$vtodo" | sed -n 's/^UID://p' | head -n 1)
dur=\$(printf '%s\n' "\$vtodo" | sed -n 's/^SUMMARY:sleep //p' | head -n 1)
norun=0
for a in "\$@"; do case \$a in -*n*) norun=1;; esac; done
if [ \$norun = 1 ]; then
	echo "\$(date +%s.%N) NORUN pid=\$\$ uid=\$uid argv=[echsx \$*]" >> "\$LOG"
	exit 0
fi
echo "\$(date +%s.%N) START pid=\$\$ uid=\$uid argv=[echsx \$*]" >> "\$LOG"
sleep "\${dur:-0}"
echo "\$(date +%s.%N) END   pid=\$\$ uid=\$uid" >> "\$LOG"
EOX
	chmod 755 "$T/bin/echsx"
	rc=0
	for N in 1 2 3; do
		mkdir -p "$T/spool$N"
		timeout 40 unshare -m -n -p -f --kill-child --mount-proc "$0" --inner "$T" $N || rc=1
	done
	echo
	echo "================ summary ================"
	cat "$T/summary"
	exit $rc
fi

T=$2
N=$3
echo "=================== X-ECHS-MAX-SIMUL:$N ==================="
mount --bind "$T/spool$N" /var/spool || exit 1
LOG=$T/echsd.$N.log
: > "$T/argv.log"
"$T/bin/echsd" -n 2>"$LOG" &
DPID=$!
trap 'kill -TERM $DPID 2>/dev/null; pkill -f "$T/bin/echsx" 2>/dev/null' EXIT
i=0
while ! grep -q 'echsd ready' "$LOG"; do
	i=$((i + 1)); [ $i -gt 50 ] && { echo "echsd did not start"; exit 1; }
	sleep 0.1
done

cat > "$T/task.ics" <<EOT
BEGIN:VCALENDAR
VERSION:2.0
BEGIN:VEVENT
UID:task-A
SUMMARY:sleep 4.5
X-ECHS-MAX-SIMUL:$N
DTSTART:$(date -u +%Y%m%dT%H%M%SZ)
RRULE:FREQ=SECONDLY
END:VEVENT
END:VCALENDAR
EOT
echo "--- submitted task:"; sed 's/^/    /' "$T/task.ics"
"$T/bin/echsq" add "$T/task.ics"
# sample the process table as an independent cross-check
PS=0; i=0
while [ $i -lt $((RUNFOR * 4)) ]; do
	n=$(pgrep -f "^/bin/sh $T/bin/echsx" | wc -l)
	[ "$n" -gt "$PS" ] && PS=$n
	sleep 0.25; i=$((i + 1))
done
kill -TERM $DPID; wait $DPID 2>/dev/null
pkill -f "$T/bin/echsx" 2>/dev/null
trap - EXIT

echo "--- echsd log (spawn decisions only)"
grep -E 'supervis|coughed' "$LOG" | sed 's/^/    /'
echo "--- fake echsx log (time, event, pid, task uid, argv)"
sort -n "$T/argv.log" | sed 's/^/    /'
MAX=$(sort -n "$T/argv.log" | awk '
	$2 == "START" {c++; if (c > m) m = c}
	$2 == "END" {c--}
	END {print m + 0}')
NSTART=$(grep -c ' START ' "$T/argv.log")
NNORUN=$(grep -c ' NORUN ' "$T/argv.log")
NSUP=$(grep -c 'supervising pid' "$LOG")
NUNS=$(grep -c 'unsupervised run' "$LOG")
echo "--- result for X-ECHS-MAX-SIMUL:$N"
echo "real runs started: $NSTART, runs with -n/-nd: $NNORUN, supervised spawns: $NSUP, unsupervised spawns: $NUNS"
echo "max simultaneously running real executors (from START/END log): $MAX"
echo "max fake echsx processes alive at once (pgrep sampled every 0.25 s): $PS"
echo "MAX-SIMUL:$N  max_concurrent_real_runs=$MAX  max_alive_pgrep=$PS  real=$NSTART norun=$NNORUN supervised=$NSUP unsupervised=$NUNS" >> "$T/summary"
[ "$MAX" -gt "$N" ]
