/* Compares echs_instant_to_epoch() with timegm() for every day 1901-01-01 .. 2099-12-31 (two times of day). */
#include <stdio.h>
#include <time.h>
#include "instant.h"
int main(void){
 long bad=0, n=0;
 static const int ml[]={0,31,28,31,30,31,30,31,31,30,31,30,31};
 for (int y=1901;y<=2099;y++) for(int m=1;m<=12;m++) for (int d=1; d<=ml[m]+(m==2&&y%4==0); d++) for (int H=0; H<24; H+=23){
   echs_instant_t i = {.y=y,.m=m,.d=d,.H=H,.M=34,.S=56,.ms=0};
   struct tm tm = {.tm_year=y-1900,.tm_mon=m-1,.tm_mday=d,.tm_hour=H,.tm_min=34,.tm_sec=56};
   time_t want = timegm(&tm); time_t got = echs_instant_to_epoch(i); n++;
   if (want!=got){ if(bad++<4) printf("to_epoch %04d-%02d-%02dT%02d:34:56: %lld instead of %lld\n",y,m,d,H,(long long)got,(long long)want);}
 }
 printf("instants checked=%ld disagreements=%ld\n",n,bad); return bad!=0;}
