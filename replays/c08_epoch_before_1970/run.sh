#!/bin/sh
# Replay for C08/R08.10: echs_instant_to_epoch() against timegm() for every day of 1901..2099.  The sum was formed in unsigned 32-bit
# arithmetic: an instant before 1970 came out as a time after 2106 (1969-12-31T23:59:59 -> 4294967295), and before March 1948 — the
# base year of the day count — the leap-day term `by / 4` was taken of a wrapped number.
cd "$(dirname "$0")"; REPO=${REPO:-/repo}; T=$(mktemp -d /tmp/c08e.XXXXXX); trap 'rm -rf "$T"' EXIT INT TERM
cc -std=gnu11 -D_GNU_SOURCE -I$REPO/src -I$REPO -DHAVE_CONFIG_H epoch.c $REPO/src/.libs/libechse.a -lm -lltdl -ldl -o "$T/e" 2>/dev/null || cc -std=gnu11 -D_GNU_SOURCE -I$REPO/src -I$REPO -DHAVE_CONFIG_H epoch.c $REPO/src/.libs/libechse.a -lm -ldl -o "$T/e" || exit 2
"$T/e"
