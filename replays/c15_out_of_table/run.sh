#!/bin/sh
# Replay for C15/R15.2: Hijri dates outside the Umm al-Qura table's coverage (1355..1500 AH) must be rejected, not mapped to a wrong day.
cd "$(dirname "$0")"; E=${ECHSE:-/repo/src/echse}
for f in before_table after_table; do echo "$f: $(grep DTSTART $f.ics) -> '$($E unroll $f.ics | cut -f1 | tr '\n' ' ')'"; done
echo "# expected: no occurrence (date outside the table); 1858-11-1x is MJD 0, the conversion's failure sentinel leaking through"
