/* Replay for C18/R18.5: durations are milliseconds; idiff_strf() prints whole seconds only and drops the rest. */
#include <stdio.h>
#include <string.h>
#include "dt-strpf.h"

int
main(void)
{
	static const long long v[] = {1000, 1500, 500, 86400500LL, 61001};
	int rc = 0;

	for (size_t i = 0U; i < sizeof(v) / sizeof(*v); i++) {
		char buf[64];
		echs_idiff_t d = {.d = v[i]}, back;
		size_t n = idiff_strf(buf, sizeof(buf), d);

		back = idiff_strp(buf, NULL, n);
		printf("%9lld ms  prints as %-12s reads back as %9lld ms%s\n",
		       v[i], buf, (long long)back.d, back.d == v[i] ? "" : "   <-- differs");
		rc |= back.d != v[i];
	}
	puts(rc ? "FAIL: a printed duration does not read back as the same number of milliseconds" : "PASS");
	return rc;
}
