#!/bin/sh
# Replay for C18/R18.5 (known finding): idiff_strf() peels off days, hours, minutes and seconds and never looks at what is left of the
# millisecond value after the seconds.  Built from SRC (default /repo/src).
cd "$(dirname "$0")"; SRC=${SRC:-/repo/src}; T=$(mktemp -d)
cc -std=gnu11 -O1 -I"$SRC" -I"$SRC/.." -DHAVE_CONFIG_H -w -o "$T/h" harness.c "$SRC/dt-strpf.c" "$SRC/instant.c" -lm 2>"$T/err" || { cat "$T/err"; rm -rf "$T"; exit 2; }
"$T/h"; rc=$?; rm -rf "$T"
echo "# expected by C18: every non-negative duration reads back as the same number of milliseconds; iCalendar's DURATION has no sub-second part,"
echo "# so this needs a fraction syntax in printer and parser (or a documented rounding) — recorded as a known finding, not repaired"
exit $rc
