#include "scale.c"
#include <stdio.h>
int main(void){
 for (int t=0;t<4;t++){ printf("type %d:",t); for(unsigned y=1;y<=30;y++) if(__hij_inty_p(t,0,y)) printf(" %u",y); printf("\n");}
 return 0;}
