#!/bin/sh
# Replay for C15/R15.8: the arithmetic (tabular) Hijri variants at the ends of their 30-year cycle and of their intercalary years.
#  inty.c      — the intercalary years of each variant as __hij_inty_p() reports them (type IV listed 12 of them, 29 AND 30, before the fix)
#  roundtrip.c — hij2mjd()/mjd2hij() for 1438..1441 AH (1440 = 0 mod 30): before the first fix type IV put 1440-01-01 into the year
#                5938 and the last day of 1439 (types I-III: the last day of a cycle) came back as 5479-9719-...; before the second fix
#                Dhu al-Hijja 30 of every intercalary year came back as month 13, day 1.
cd "$(dirname "$0")"; R=${ECHSE_TREE:-/repo}
T=$(mktemp -d); trap 'rm -rf "$T"' EXIT
for p in inty roundtrip; do cc -w -I "$R/src" -I "$R" -DHAVE_CONFIG_H -o "$T/$p" $p.c || exit 2; "$T/$p"; done | tee "$T/out"
echo "# expected: type 3: 2 5 8 11 13 16 19 21 24 27 30; every date converts back to itself; 'IV 1440-12-30 -> 58727 -> 1440-12-30'"
! grep -q -e "-13-\|9719\|27 29 30" "$T/out"
