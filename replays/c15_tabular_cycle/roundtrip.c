#include "scale.c"
#include <stdio.h>
int main(void){
 for (int t=0;t<4;t++){ for(unsigned y=1438;y<=1441;y++){ struct ymd_s h={y,1,1}; mjd_t j=hij2mjd(t,0,h); struct ymd_s b=mjd2hij(t,0,j); struct ymd_s g=mjd2g(j); printf("type %d  %u-01-01 -> mjd %u -> %u-%u-%u (greg %u-%u-%u)\n",t,y,j,b.y,b.m,b.d,g.y,g.m,g.d);} }
 /* end of year 29 and 30 in type IV */
 for (unsigned y=1439;y<=1440;y++) for (unsigned d=29; d<=30; d++){ struct ymd_s h={y,12,d}; mjd_t j=hij2mjd(3,0,h); struct ymd_s b=mjd2hij(3,0,j); printf("IV %u-12-%u -> %u -> %u-%u-%u\n",y,d,j,b.y,b.m,b.d);} 
 return 0;}
