#!/bin/sh
# Replay for C05/R05.1: an execution request (VTODO with a time limit) written by the serialiser must read back with its limit.
cd "$(dirname "$0")"; E=${ECHSE:-/repo/src/echse}
echo "written:      $($E merge vtodo.ics | grep -E '^(TIMEOUT|DURATION)')"
echo "re-read+written: $($E merge vtodo.ics | $E merge /dev/stdin | grep -E '^(TIMEOUT|DURATION)')"
echo "# expected both: DURATION:PT2S"
