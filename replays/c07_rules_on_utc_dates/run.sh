#!/bin/sh
# Replay for C07/R07.5+R07.12 (also C01, C16): rule streams were expanded from the UTC image of DTSTART; only the time of day was
# corrected per occurrence.  Everything that names a calendar day was evaluated on UTC dates.
cd "$(dirname "$0")"; E=${ECHSE:-/repo/src/echse}
out=$($E unroll zoned_rules.ics); echo "$out"
rc=0
# 09:00 on the 1st in Sydney, monthly, six times: Feb 1 .. Jul 1 local = the UTC evenings before
for t in 2019-01-31T22:00:00 2019-02-28T22:00:00 2019-03-31T22:00:00 2019-04-30T23:00:00 2019-05-31T23:00:00 2019-06-30T23:00:00; do
	echo "$out" | grep -q "^$t	first of the month" || { echo "# missing: $t first of the month 9am Sydney"; rc=1; }
done
# 20:00 on the 31st in New York, monthly, four times: Jan 31, Mar 31, May 31, Jul 31 local
for t in 2019-02-01T01:00:00 2019-04-01T00:00:00 2019-06-01T00:00:00 2019-08-01T00:00:00; do
	echo "$out" | grep -q "^$t	31st 8pm" || { echo "# missing: $t 31st 8pm New York"; rc=1; }
done
# Mondays 09:00 in Sydney = Sundays 22:00Z
for t in 2019-02-03T22:00:00 2019-02-10T22:00:00 2019-02-17T22:00:00; do
	echo "$out" | grep -q "^$t	monday" || { echo "# missing: $t monday 9am Sydney (before the fix: Tuesdays)"; rc=1; }
done
[ "$(echo "$out" | wc -l)" = 13 ] || { echo "# expected 13 occurrences"; rc=1; }
out=$($E unroll until_across_dst.ics | grep Berlin); echo "$out"
echo "$out" | grep -q "^2019-04-02T06:30:00" || { echo "# missing: the occurrence that coincides with UNTIL=20190402T063000Z (08:30 CEST)"; rc=1; }
# the serialiser writes DTSTART back as given and the written form unrolls to the same instants
T=$(mktemp -d); trap 'rm -rf "$T"' EXIT
$E merge zoned_rules.ics > "$T/m.ics"; grep DTSTART "$T/m.ics"
$E unroll zoned_rules.ics > "$T/a"; $E unroll "$T/m.ics" > "$T/b"; cmp -s "$T/a" "$T/b" || { echo "# write+read changes the occurrences"; rc=1; }
exit $rc
