/* LD_PRELOAD shim for the c06_write_error replay.
 *
 * Makes write(2) fail with ENOSPC when
 *   - the file named by $ENOSPC_TRIGGER exists, and
 *   - the descriptor refers to a file whose basename starts with ".echsq_"
 *     (the checkpoint temp file of echsd's chkpnt1()/chkpnta()).
 * Everything else is passed through to the real write(2).
 * Every simulated failure is reported on stderr so it shows up in the
 * daemon's foreground log. */
#define _GNU_SOURCE
#include <dlfcn.h>
#include <errno.h>
#include <stdio.h>
#include <stdlib.h>
#include <string.h>
#include <unistd.h>
#include <sys/types.h>

static ssize_t (*real_write)(int, const void*, size_t);

ssize_t
write(int fd, const void *buf, size_t len)
{
	const char *trig;

	if (real_write == NULL) {
		real_write = (ssize_t(*)(int, const void*, size_t))
			dlsym(RTLD_NEXT, "write");
	}
	if ((trig = getenv("ENOSPC_TRIGGER")) != NULL && !access(trig, F_OK)) {
		char lnk[64], path[4096];
		ssize_t n;

		snprintf(lnk, sizeof(lnk), "/proc/self/fd/%d", fd);
		if ((n = readlink(lnk, path, sizeof(path) - 1U)) > 0) {
			const char *bn;

			path[n] = '\0';
			bn = strrchr(path, '/');
			bn = bn ? bn + 1 : path;
			if (!strncmp(bn, ".echsq_", 7U)) {
				char msg[256];
				int z = snprintf(msg, sizeof(msg), "\
SHIM write(fd=%d -> %s, %zu bytes) = -1 ENOSPC\n", fd, bn, len);
				real_write(STDERR_FILENO, msg, z);
				errno = ENOSPC;
				return -1;
			}
		}
	}
	return real_write(fd, buf, len);
}
