#!/bin/sh
# Replay for suspected defect c06_write_error (echsd checkpoint ignores
# write(2) errors and renames the truncated temp file over the live queue).
#
# Usage: ./run.sh            (needs root: uses unshare -m -n -p for isolation)
#
# echsd has no option for the spool directory or the socket: as root it
# always uses /var/spool/echse and the abstract socket "\0/var/run/echse/=echsd".
# To keep everything private we run the unmodified binaries inside a private
# mount namespace (a directory below `mktemp -d` is mounted over /var/spool)
# and a private network namespace (abstract unix sockets are per net-ns).
#
# Phase A: real ENOSPC.  /var/spool is a 64 KiB tmpfs that is filled up
#          with a filler file before the second checkpoint.
# Phase B: simulated ENOSPC through the LD_PRELOAD shim enospc_shim.c which
#          fails write() on descriptors that refer to ".echsq_*".
REPO=${REPO:-/repo}
HERE=$(cd "$(dirname "$0")" && pwd)

if [ "$1" != "--inner" ]; then
	T=$(mktemp -d /tmp/c06.XXXXXX) || exit 1
	trap 'rm -rf "$T"' EXIT INT TERM
	mkdir -p "$T/bin" "$T/spoolB"
	cp "$REPO/src/echsd" "$REPO/src/echsx" "$REPO/src/echsq" "$T/bin/" || exit 1
	gcc -shared -fPIC -O1 -o "$T/enospc.so" "$HERE/enospc_shim.c" -ldl || exit 1
	rc=0
	for phase in A B; do
		timeout 50 unshare -m -n -p -f --kill-child --mount-proc "$0" --inner "$T" $phase || rc=1
	done
	exit $rc
fi

T=$2
PHASE=$3
Q=/var/spool/echse/echsq_0.ics
ECHSQ="$T/bin/echsq"
nev() { grep -c '^BEGIN:VEVENT' "$1"; }

mktask() {
	# mktask FILE UID...
	f=$1; shift
	{
		echo "BEGIN:VCALENDAR"
		echo "VERSION:2.0"
		for u in "$@"; do
			echo "BEGIN:VEVENT"
			echo "UID:$u"
			echo "SUMMARY:/bin/true $u"
			echo "DTSTART:20300101T000000Z"
			echo "RRULE:FREQ=DAILY"
			echo "END:VEVENT"
		done
		echo "END:VCALENDAR"
	} > "$f"
}

start_daemon() {
	# start_daemon LOGFILE [ENV...]
	log=$1; shift
	: > "$log.cur"
	env "$@" "$T/bin/echsd" -n 2>>"$log.cur" &
	DPID=$!
	i=0
	while ! grep -q 'echsd ready' "$log.cur" 2>/dev/null; do
		i=$((i + 1)); [ $i -gt 50 ] && { echo "echsd did not start"; exit 1; }
		sleep 0.1
	done
}
stop_daemon() {
	[ -n "$DPID" ] || return 0
	kill -TERM $DPID 2>/dev/null; wait $DPID 2>/dev/null
	cat "$LOG.cur" >> "$LOG"; DPID=
}

echo "=================== phase $PHASE ==================="
case $PHASE in
A)
	echo "[A] /var/spool is a private 64 KiB tmpfs, ENOSPC is produced by the kernel"
	mount -t tmpfs -o size=64k,mode=755 none /var/spool || exit 1
	LOG=$T/echsd.A.log
	set --
	;;
B)
	echo "[B] /var/spool is a bind mount of a private dir, ENOSPC comes from enospc_shim.c"
	mount --bind "$T/spoolB" /var/spool || exit 1
	LOG=$T/echsd.B.log
	set -- LD_PRELOAD="$T/enospc.so" ENOSPC_TRIGGER="$T/trigger"
	;;
esac
: > "$LOG"
trap 'stop_daemon' EXIT

start_daemon "$LOG" "$@"

echo "--- step 1: submit task-one and task-two, force checkpoint via GET /u/0/queue"
mktask "$T/t12.ics" task-one task-two
"$ECHSQ" add "$T/t12.ics"
"$ECHSQ" list -u 0 >/dev/null
ls -la /var/spool/echse | sed 's/^/    /'
N1=$(nev $Q); S1=$(stat -c %s $Q)
echo "live queue file after checkpoint #1: $S1 bytes, $N1 VEVENTs"

echo "--- step 2: make write(2) on the checkpoint file fail"
case $PHASE in
A)
	dd if=/dev/zero of=/var/spool/echse/filler bs=1k 2>&1 | sed 's/^/    /'
	df -k /var/spool | sed 's/^/    /'
	;;
B)
	: > "$T/trigger"
	echo "    trigger file created, shim is armed"
	;;
esac

echo "--- step 3: submit task-three (accepted: REQUEST-STATUS 2.0), force checkpoint #2"
SPID=
if [ $PHASE = A ] && command -v strace >/dev/null 2>&1; then
	# optional: watch the daemon's syscalls during checkpoint #2
	strace -p $DPID -o "$T/strace.A" -e trace=openat,write,close,renameat,renameat2,unlinkat 2>/dev/null &
	SPID=$!
	sleep 0.5
fi
mktask "$T/t3.ics" task-three
"$ECHSQ" add "$T/t3.ics"
echo "daemon's in-memory schedule (GET /u/0/sched) before checkpoint #2:"
"$ECHSQ" next -u 0 | sed 's/^/    /'
echo "echsq list -u 0 (triggers checkpoint #2, then serves the live file):"
"$ECHSQ" list -u 0 > "$T/list.out"; echo "    exit code $?, $(wc -c < "$T/list.out") bytes of output"
ls -la /var/spool/echse | sed 's/^/    /'
N2=$(nev $Q); S2=$(stat -c %s $Q)
echo "live queue file after checkpoint #2: $S2 bytes, $N2 VEVENTs"
if [ -n "$SPID" ]; then
	kill -INT $SPID 2>/dev/null; wait $SPID 2>/dev/null
	echo "strace of echsd during checkpoint #2 (checkpoint file related calls only):"
	awk '/openat\(.*"\.echsq_/ {on = 1} on {print "    " $0} /^renameat|^unlinkat/ {on = 0}' "$T/strace.A"
fi

echo "--- step 4: clean shutdown (SIGTERM), free the space again, restart the daemon"
stop_daemon
rm -f /var/spool/echse/filler "$T/trigger"
N3=$(nev $Q); S3=$(stat -c %s $Q)
echo "live queue file after shutdown: $S3 bytes, $N3 VEVENTs"
echo "=== RESTART ===" >> "$LOG"
start_daemon "$LOG" "$@"
echo "daemon's in-memory schedule after restart:"
"$ECHSQ" next -u 0 | sed 's/^/    /'
NS=$("$ECHSQ" next -u 0 | grep -c task-)
stop_daemon
trap - EXIT

echo "--- echsd foreground log"
sed 's/^/    /' "$LOG"

echo "--- result phase $PHASE"
echo "VEVENTs on disk: after chkpnt#1=$N1  after failed chkpnt#2=$N2  tasks scheduled after restart=$NS"
if grep -q "cannot checkpoint" "$LOG"; then
	echo "echsd noticed the failure (logged 'cannot checkpoint')"
else
	echo "echsd never logged 'cannot checkpoint'; it logged 'checkpointed user 0' $(grep -c 'checkpointed user 0' "$LOG") times"
fi
if [ "$N1" -eq 2 ] && [ "$N2" -lt "$N1" ]; then
	echo "PHASE $PHASE: DEFECT REPRODUCED (complete live file was replaced by a truncated one)"
	exit 0
else
	echo "PHASE $PHASE: defect NOT reproduced"
	exit 1
fi
