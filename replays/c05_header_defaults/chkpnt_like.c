/* Serialises all tasks of an .ics file exactly the way echsd's chkpnt1() does:
 * echs_icalify_init(fd, {INSVERB_SCHE, .t = first task}); echs_task_icalify(fd, t)...; echs_icalify_fini(fd). */
#include <stdio.h>
#include <stdlib.h>
#include <unistd.h>
#include <fcntl.h>
#include "echse.h"
#include "evical.h"
#include "instruc.h"

int main(int argc, char *argv[])
{
	char buf[65536];
	ical_parser_t pp = NULL;
	echs_task_t ts[64];
	size_t nt = 0;
	int fd = open(argv[1], O_RDONLY);
	ssize_t nrd;

	while ((nrd = read(fd, buf, sizeof(buf))) > 0) {
		echs_evical_push(&pp, buf, nrd);
		for (echs_instruc_t ins; (ins = echs_evical_pull(&pp)).v == INSVERB_SCHE;) {
			if (ins.t != NULL && nt < 64) ts[nt++] = ins.t;
		}
	}
	(void)echs_evical_last_pull(&pp);
	for (size_t i = 0; i < nt; i++) {
		if (!i) {
			echs_icalify_init(STDOUT_FILENO, (echs_instruc_t){INSVERB_SCHE, 0U, .t = ts[0]});
		}
		echs_task_icalify(STDOUT_FILENO, ts[i]);
	}
	echs_icalify_fini(STDOUT_FILENO);
	return 0;
}
