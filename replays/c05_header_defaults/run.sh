#!/bin/sh
# Replay: a checkpoint of (task a: MAX-SIMUL 2, UMASK 027) + (task b: neither) written the way chkpnt1() writes it,
# read back: task b inherits a's values through the calendar-level defaults of the header.
set -e
cd "$(dirname "$0")"
T=$(mktemp -d)
trap 'rm -rf "$T"' EXIT
cc -std=gnu11 -D_GNU_SOURCE -I/repo/src -I/repo -DHAVE_CONFIG_H chkpnt_like.c /repo/src/.libs/libechse.a -lm -lltdl -ldl -o "$T/chk" 2>/dev/null || \
cc -std=gnu11 -D_GNU_SOURCE -I/repo/src -I/repo -DHAVE_CONFIG_H chkpnt_like.c /repo/src/.libs/libechse.a -lm -ldl -o "$T/chk"
"$T/chk" two_tasks.ics > "$T/ck.ics"
echo "== checkpoint as written =="; grep -n "MAX-SIMUL\|UMASK\|^UID\|BEGIN:VEVENT\|BEGIN:VCAL" "$T/ck.ics"
echo "== after reload (echse merge of the checkpoint) =="; /repo/src/echse merge "$T/ck.ics" | grep -n "MAX-SIMUL\|UMASK\|^UID"
